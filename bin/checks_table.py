"""Registry of checks: how each property's harness is built and run."""

ENGINE = ["internal/verifeng"]
BUBBLE = ENGINE + ["internal/verifbubble", "internal/verifdetrt"]

CHECKS = {
    "C16": {
        "module": "cache",
        "pkg": "./lru",
        "test": "TestVFXC16",
        "overlay": ENGINE + ["internal/verifvsync", "cache/lru/zz_vfx_c16_test.go"],
        "sync_rewrite": ["cache/lru"],
        "shards": {"quick": 16, "thorough": 16},
        "budget_s": {"quick": 150, "thorough": 3000},
        "level": "model_checking",
        "rule": "a) every operation sequence up to the depth over the 29-operation alphabet on a capacity-3 cache, "
                "pruned on the canonical cache state; b) every interleaving (at every sync operation of the real code) "
                "of every listed thread program on every setup prefix.",
        "bounds": {
            "quick": "seq depth 8; threads: 2x1, 2x2, 3x1 (threads x ops each), all interleavings, on 5 setups, 10-operation alphabet",
            "thorough": "seq depth 12; quick's thread scenarios plus 3x2 with <=3 preemptions and 2x3 with all interleavings over 6 colliding operations on 2 setups",
        },
        "assumptions": [
            "sync.RWMutex/sync.Map replaced by a shim with the same blocking semantics whose every operation is a scheduling point; code between two sync operations of one thread is atomic (unsynchronised accesses are C18's business)",
            "values are opaque; three keys, sizes 1..4, capacity 3",
        ],
    },
    "C07": {
        "pkg": "./headerfs",
        "test": "TestVFXC07",
        "overlay": ENGINE + ["internal/verifmemdb/memdb.go", "internal/verifhfs", "headerfs/zz_vfx_store_test.go"],
        "shards": {"quick": 16, "thorough": 16},
        "budget_s": {"quick": 150, "thorough": 3000},
        "level": "model_checking",
        "rule": "every sequence of store operations (append 0-3 block headers on branch a/b, append 0-2 filter headers, block rollback by 1/2/to genesis/past genesis, filter rollback, combined rollback, reopen) up to the depth, pruned on (list model, file offsets); in the fault runs every durable step (file write, truncate, sync, index commit) additionally offers every fault kind.",
        "bounds": {"quick": "fault-free depth 5 (chains <= 6); <=1 fault at depth 4", "thorough": "fault-free depth 7; <=1 fault depth 5; <=2 faults (<=1 per operation) depth 4"},
        "assumptions": ["in-memory walletdb (conformance: walletdbtest.TestInterface + exhaustive differential vs bbolt in bin/setup)", "real files on tmpfs through the headerfs verif seam", "block rollbacks never cut below the filter tip (caller contract)"],
    },
    "C08": {
        "pkg": "./headerfs",
        "test": "TestVFXC08",
        "overlay": ENGINE + ["internal/verifmemdb/memdb.go", "internal/verifhfs", "headerfs/zz_vfx_store_test.go"],
        "shards": {"quick": 16, "thorough": 16},
        "budget_s": {"quick": 150, "thorough": 3000},
        "level": "fault_enumeration",
        "rule": "every history of store operations up to the depth, and in each every crash point: before each durable step (file write, truncate, index commit) and inside each file write with every torn-length class (1 byte, half entry, each entry boundary, 1.5 entries); after the crash the real constructors restart on the directory.",
        "bounds": {"quick": "depth 4, 1 crash", "thorough": "depth 5 with 1 crash; depth 4 with a second crash during recovery"},
        "assumptions": ["process-death crash model: completed steps persist in order, the step in flight may be partial; no power-loss reordering", "in-memory walletdb with atomic commit"],
    },
    "MEMDB": {
        "pkg": "./internal/verifmemdb",
        "test": "TestVFXMemdb.*",
        "overlay": ["internal/verifmemdb"],
        "shards": {"quick": 1, "thorough": 1},
        "budget_s": {"quick": 600, "thorough": 3000},
        "selftest": True,
    },
    "C14": {
        "pkg": "./chainimport",
        "test": "TestVFXC14",
        "overlay": ENGINE + ["internal/verifmemdb/memdb.go", "internal/verifhfs", "internal/verifchain", "chainimport/zz_vfx_c14_test.go"],
        "shards": {"quick": 16, "thorough": 16},
        "budget_s": {"quick": 200, "thorough": 3000},
        "level": "model_checking",
        "rule": "exhaustive product: target block tip 0-4 x filter lag 0-2 x agreeing/forked target chain x file start 0-4 x file length 1-4 x write batch size {default,1,2,3} x corruption {none, broken link, bad proof of work, wrong bits (each at every file position), wrong network magic, truncated file, filter count mismatch, filter start mismatch}; in the fault run every durable step of the stores additionally answers with every fault kind (<=1).",
        "bounds": {"quick": "chains of 7 mined regtest headers; <=1 injected fault", "thorough": "same product; <=1 injected fault"},
        "assumptions": ["regtest parameters (no retargeting)", "filter headers are synthetic (the importer cannot validate them beyond checkpoints)", "in-memory walletdb; real files on tmpfs"],
    },
    "C11": {
        "pkg": "./blockntfns",
        "test": "TestVFXC11",
        "overlay": BUBBLE + ["blockntfns/zz_vfx_c11_test.go"],
        "detrt": True,
        "shards": {"quick": 16, "thorough": 16},
        "budget_s": {"quick": 150, "thorough": 3000},
        "level": "model_checking",
        "rule": "every ordering of stimuli (subscribe from 0 / from the tip, cancel (up to twice per client), emit one event, emit a burst of 25, read one, drain, stop) delivered one per quiescent point of the real SubscriptionManager in a synctest bubble, up to the depth; clients that never read are part of every ordering.",
        "bounds": {"quick": "depth 6, 2 clients", "thorough": "depth 8, 3 clients"},
        "assumptions": ["stimuli are delivered only when every goroutine of the component is durably blocked (one stimulus at a time); internal select order fixed by the determinised runtime", "events are Connected notifications with increasing heights"],
    },
    "C15": {
        "pkg": "./pushtx",
        "test": "TestVFXC15",
        "overlay": BUBBLE + ["pushtx/zz_vfx_c15_test.go"],
        "detrt": True,
        "shards": {"quick": 16, "thorough": 16},
        "budget_s": {"quick": 150, "thorough": 3000},
        "level": "model_checking",
        "rule": "every ordering of stimuli (a caller starts Broadcast(tx), block event, interval tick, MarkAsConfirmed(tx), each parked Broadcast callback returns with one of 5 answers, Stop, API calls after Stop) delivered one per quiescent point of the real Broadcaster in a synctest bubble, up to the depth; at most one stimulus is queued behind a busy handler.",
        "bounds": {"quick": "depth 7; transactions parent, child, grandchild", "thorough": "depth 9; parent, child, grandchild, unrelated"},
        "assumptions": ["virtual clock; Config.Broadcast and the block subscription are harness-owned", "the reject-threshold verdict of ChainService.sendTransaction is not part of this harness"],
    },
}

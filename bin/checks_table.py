"""Registry of checks: how each property's harness is built and run."""

ENGINE = ["internal/verifeng"]

CHECKS = {
    "C16": {
        "module": "cache",
        "pkg": "./lru",
        "test": "TestVFXC16",
        "overlay": ENGINE + ["internal/verifvsync", "cache/lru/zz_vfx_c16_test.go"],
        "sync_rewrite": ["cache/lru"],
        "shards": {"quick": 16, "thorough": 16},
        "budget_s": {"quick": 150, "thorough": 3000},
        "level": "model_checking",
        "rule": "a) every operation sequence up to the depth over the 29-operation alphabet on a capacity-3 cache, "
                "pruned on the canonical cache state; b) every interleaving (at every sync operation of the real code) "
                "of every listed thread program on every setup prefix.",
        "bounds": {
            "quick": "seq depth 8; threads: 2x1, 2x2, 3x1 (threads x ops each), all interleavings, on 5 setups, 10-operation alphabet",
            "thorough": "seq depth 12; quick's thread scenarios plus 3x2 with <=3 preemptions and 2x3 with all interleavings over 6 colliding operations on 2 setups",
        },
        "assumptions": [
            "sync.RWMutex/sync.Map replaced by a shim with the same blocking semantics whose every operation is a scheduling point; code between two sync operations of one thread is atomic (unsynchronised accesses are C18's business)",
            "values are opaque; three keys, sizes 1..4, capacity 3",
        ],
    },
}

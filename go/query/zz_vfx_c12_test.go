package query_test

// C12 — each query batch gets exactly one verdict; success means all
// answered; a finished/cancelled/timed-out batch never blocks later batches
// or shutdown. Real NewWorkManager + NewWorker + NewPeerRanking inside a
// synctest bubble; peers, the connected-peers feed and the callers are the
// harness. One stimulus per quiescent point.

import (
	"fmt"
	"os"
	"sort"
	"strings"
	"testing"
	"time"

	"github.com/btcsuite/btcd/wire/v2"
	"github.com/lightninglabs/neutrino/internal/verifbubble"
	"github.com/lightninglabs/neutrino/internal/verifdetrt"
	"github.com/lightninglabs/neutrino/internal/verifeng"
	"github.com/lightninglabs/neutrino/query"
)

type c12peer struct {
	addr  string
	name  string // addr plus instance number
	msgs  chan wire.Message
	disc  chan struct{}
	gone  bool
	h     *c12h
	unsub bool
	nsent int // requests this instance was given
	last  *c12out // the latest of them: the only one its worker can still be working on
	since int // quiescent points seen since it connected
}

func (p *c12peer) QueueMessageWithEncoding(msg wire.Message, _ chan<- struct{}, _ wire.MessageEncoding) {
	id := int(msg.(*wire.MsgPing).Nonce)
	p.nsent++
	o := &c12out{peer: p, req: id}
	p.last = o
	p.h.outstanding = append(p.h.outstanding, o)
	p.h.sent = append(p.h.sent, fmt.Sprintf("%s<-r%d", p.name, id))
}
func (p *c12peer) SubscribeRecvMsg() (<-chan wire.Message, func()) {
	return p.msgs, func() { p.unsub = true }
}
func (p *c12peer) Addr() string                  { return p.addr }
func (p *c12peer) OnDisconnect() <-chan struct{} { return p.disc }

type c12out struct {
	peer *c12peer
	req  int
}

type c12batch struct {
	id       int
	reqs     []int
	ch       chan error
	cancel   chan struct{}
	optName  string
	canceled bool
}

type c12h struct {
	c           *verifeng.Chooser
	outstanding []*c12out
	sent        []string
	finished    map[int]bool
	handled     map[int]int
	parked      map[int]chan struct{}
	parkedAddr  map[int]string
}

const (
	kindValid = iota
	kindProgress
	kindUnrelated
	// a valid answer whose handler takes its time (real handlers write to
	// caches and hand filters and headers on through channels): it parks
	// until the harness lets it return
	kindSlow
)

func c12msg(req, kind int) wire.Message { return wire.NewMsgPong(uint64(req*10 + kind)) }

func (h *c12h) request(id int) *query.Request {
	return &query.Request{
		Req: wire.NewMsgPing(uint64(id)),
		HandleResp: func(_, resp wire.Message, peerAddr string) query.Progress {
			pong, ok := resp.(*wire.MsgPong)
			if !ok || int(pong.Nonce)/10 != id {
				return query.Progress{}
			}
			h.handled[id]++
			switch int(pong.Nonce) % 10 {
			case kindSlow:
				g := make(chan struct{})
				h.parked[id] = g
				h.parkedAddr[id] = peerAddr
				<-g
				h.finished[id] = true
				return query.Progress{Finished: true, Progressed: true}
			case kindValid:
				h.finished[id] = true
				return query.Progress{Finished: true, Progressed: true}
			case kindProgress:
				return query.Progress{Progressed: true}
			}
			return query.Progress{}
		},
	}
}

var c12opts = []struct {
	name string
	mk   func(cancel chan struct{}) []query.QueryOption
}{
	{"default", func(chan struct{}) []query.QueryOption { return nil }},
	{"retries=1", func(chan struct{}) []query.QueryOption { return []query.QueryOption{query.NumRetries(1)} }},
	{"no-retry-max", func(chan struct{}) []query.QueryOption { return []query.QueryOption{query.NoRetryMax()} }},
	{"timeout=3s", func(chan struct{}) []query.QueryOption {
		return []query.QueryOption{query.Timeout(3 * time.Second), query.NoRetryMax()}
	}},
	{"progress=3s", func(chan struct{}) []query.QueryOption {
		return []query.QueryOption{query.ProgressTimeout(3 * time.Second), query.NoRetryMax()}
	}},
	{"retries=1,timeout=3s", func(chan struct{}) []query.QueryOption {
		return []query.QueryOption{query.NumRetries(1), query.Timeout(3 * time.Second)}
	}},
	{"retries=1,progress=3s", func(chan struct{}) []query.QueryOption {
		return []query.QueryOption{query.NumRetries(1), query.ProgressTimeout(3 * time.Second)}
	}},
	{"cancelable", func(c chan struct{}) []query.QueryOption {
		return []query.QueryOption{query.Cancel(c), query.NoRetryMax()}
	}},
}

func c12Body(t *testing.T, depth, maxPeers int, bursts int) func(c *verifeng.Chooser) {
	return func(c *verifeng.Chooser) {
		out := verifbubble.Run(t, func() { c12Run(c, depth, maxPeers, bursts) })
		switch {
		case out.Panic != nil:
			if ie, ok := out.Panic.(verifeng.InfraError); ok {
				panic(ie)
			}
			c.Fail("panic", "panic", "%v", out.Panic)
		case out.Deadlock != "":
			c.Fail("stuck", "controller-deadlock", "the controller blocked on a call into the work manager (Query) with every goroutine idle: the dispatcher has stopped serving (%s)", out.Deadlock)
		case out.Hang:
			c.Fail("hang", "hang", "the bubble never became quiescent")
		case out.Leak != "" && !c.Failed():
			c.Fail("leak", "goroutines-blocked-after-stop", "after Stop returned: %s", out.Leak)
		}
	}
}

// bursts: 0 none, 1 one scheduler/select deviation per execution, 2 one
// preemption at a synchronisation point per execution (with API calls in pairs)
func c12Run(c *verifeng.Chooser, depth, maxPeers int, bursts int) {
	var burst *verifbubble.Burst
	if bursts > 0 {
		burst = verifbubble.NewBurst(c)
	}
	if bursts == 2 && burst != nil {
		burst.NoSched, burst.NoSelect = true, true
		burst.Sync = verifdetrt.SyncMutex | verifdetrt.SyncSpawn | verifdetrt.SyncChan
	}
	var queryTask *verifbubble.Task
	var queryBatch *c12batch
	h := &c12h{c: c, finished: map[int]bool{}, handled: map[int]int{}, parked: map[int]chan struct{}{}, parkedAddr: map[int]string{}}
	var stopTask *verifbubble.Task
	peerFeed := make(chan query.Peer)
	feedCancelled := false
	wm := query.NewWorkManager(&query.Config{
		ConnectedPeers: func() (<-chan query.Peer, func(), error) {
			return peerFeed, func() { feedCancelled = true }, nil
		},
		NewWorker: query.NewWorker,
		Ranking:   query.NewPeerRanking(),
	})
	if err := wm.Start(); err != nil {
		panic(verifeng.InfraError{Msg: err.Error()})
	}
	var peers []*c12peer
	var batches []*c12batch
	nextReq := 1
	stopped := false
	instances := map[string]int{}
	var pendingTasks []*verifbubble.Task
	advances := 0

	act := func(name string, f func()) bool {
		tk := verifbubble.Go(name, func() (any, error) { f(); return nil, nil })
		verifbubble.Wait()
		if !tk.Done() {
			pendingTasks = append(pendingTasks, tk)
			c.Fail("stuck", "not-serving:"+strings.SplitN(name, "(", 2)[0],
				"%s was not taken up although every goroutine is idle: the dispatcher (or a worker) has stopped serving", name)
			return false
		}
		return true
	}
	connect := func(addr string) bool {
		instances[addr]++
		p := &c12peer{addr: addr, name: fmt.Sprintf("%s%d", addr, instances[addr]),
			msgs: make(chan wire.Message), disc: make(chan struct{}), h: h}
		peers = append(peers, p)
		return act("connect("+p.name+")", func() { peerFeed <- p })
	}
	disconnect := func(p *c12peer) {
		p.gone = true
		close(p.disc)
		var keep []*c12out
		for _, o := range h.outstanding {
			if o.peer != p {
				keep = append(keep, o)
			}
		}
		h.outstanding = keep
	}
	deliver := func(o *c12out, kind int) bool {
		if kind == kindValid || kind == kindSlow {
			h.removeOut(o)
		}
		return act(fmt.Sprintf("deliver(%s,r%d,%d)", o.peer.name, o.req, kind), func() { o.peer.msgs <- c12msg(o.req, kind) })
	}
	newBatch := func(nreq, opt int) {
		b := &c12batch{id: len(batches), optName: c12opts[opt].name}
		if c12opts[opt].name == "cancelable" {
			b.cancel = make(chan struct{})
		}
		var reqs []*query.Request
		for i := 0; i < nreq; i++ {
			b.reqs = append(b.reqs, nextReq)
			reqs = append(reqs, h.request(nextReq))
			nextReq++
		}
		b.ch = wm.Query(reqs, c12opts[opt].mk(b.cancel)...)
		batches = append(batches, b)
	}
	// a request whose job timed out at the worker is no longer outstanding
	// on that peer; we learn it when it is re-sent. Drop duplicates: keep
	// only the latest holder per request.
	dedupeOut := func() {
		seen := map[int]bool{}
		var keep []*c12out
		for i := len(h.outstanding) - 1; i >= 0; i-- {
			o := h.outstanding[i]
			if seen[o.req] || o.peer.gone {
				continue
			}
			seen[o.req] = true
			keep = append([]*c12out{o}, keep...)
		}
		// canonical order: by request id (menus must not depend on the
		// order in which independent workers happened to run)
		sort.Slice(keep, func(i, j int) bool { return keep[i].req < keep[j].req })
		h.outstanding = keep
	}

	// A request that nobody holds (never sent, or its only holders have
	// left) while a connected peer that has not been given anything yet is
	// idle: "unanswered requests are re-issued to an available peer".
	verdictIn := func(b *c12batch) bool { return len(b.ch) > 0 }
	// The dispatcher knows peers by address: a second connection from an
	// address supersedes the first one, which is then not an "available
	// peer" any more even if it stays connected.
	shadowed := func(p *c12peer) bool {
		for i := len(peers) - 1; i >= 0; i-- {
			if peers[i].addr == p.addr {
				return peers[i] != p
			}
		}
		return false
	}
	idlePeerUnused := func() bool {
		if stopped {
			return false
		}
		var fresh *c12peer
		for _, p := range peers {
			if !p.gone {
				p.since++
				if p.nsent == 0 && p.since >= 2 && fresh == nil && !shadowed(p) {
					fresh = p
				}
			}
		}
		if fresh == nil {
			return false
		}
		for _, b := range batches {
			if verdictIn(b) || b.canceled {
				continue
			}
			for _, r := range b.reqs {
				if h.finished[r] || h.parked[r] != nil {
					continue
				}
				held := false
				for _, o := range h.outstanding {
					held = held || (o.req == r && !o.peer.gone)
				}
				if !held {
					return c.Fail("reissue", "unheld-request-with-idle-peer",
						"request r%d of batch %d (%s) is held by no connected peer, and peer %s, connected and never given any request, is idle: the request is not (re-)issued to an available peer (sent so far: %v)",
						r, b.id, b.optName, fresh.name, h.sent)
				}
			}
		}
		return false
	}
	for d := 0; d < depth && !c.Failed(); d++ {
		verifbubble.Wait()
		burst.End()
		dedupeOut()
		if idlePeerUnused() {
			return
		}
		type ev struct {
			name string
			run  func() bool
		}
		var menu []ev
		if !stopped {
			nconn := 0
			for _, p := range peers {
				if !p.gone {
					nconn++
				}
			}
			if len(instances) < maxPeers {
				addr := string(rune('A' + len(instances)))
				menu = append(menu, ev{"connect(" + addr + ")", func() bool { return connect(addr) }})
			}
			// a reconnect that re-uses the address of a still connected peer
			if instances["A"] == 1 && !peers[0].gone {
				menu = append(menu, ev{"connect(A again, old A still connected)", func() bool { return connect("A") }})
			}
			// a reconnect from the address of a peer that has left (its
			// worker may not have been cleaned up yet)
			if instances["A"] == 1 && peers[0].gone {
				menu = append(menu, ev{"connect(A again, old A has left)", func() bool { return connect("A") }})
			}
			if len(batches) < 2 {
				if len(batches) == 0 {
					for opt := range c12opts {
						for _, n := range []int{1, 2} {
							opt, n := opt, n
							menu = append(menu, ev{fmt.Sprintf("Query(%d requests, %s)", n, c12opts[opt].name), func() bool { newBatch(n, opt); return true }})
						}
					}
				} else {
					// a later batch with its own deadline or retry cap next
					// to the first one (whose number is 0, the zero value
					// of every batch lookup)
					for _, opt := range []int{0, 3} {
						opt := opt
						if opt != 0 && batches[0].optName != "default" {
							// (only next to a first batch without options)
							continue
						}
						menu = append(menu, ev{fmt.Sprintf("Query(1 request, %s)", c12opts[opt].name), func() bool { newBatch(1, opt); return true }})
					}
				}
			}
			for _, o := range h.outstanding {
				o := o
				// a worker busy in a handler does not read from its peer
				busy := false
				for id := range h.parked {
					busy = busy || h.parkedAddr[id] == o.peer.addr
				}
				if busy {
					continue
				}
				for kind, kn := range []string{"valid answer", "progress only", "unrelated message", "valid answer (its handler takes its time)"} {
					kind, kn := kind, kn
					if kind == kindSlow && len(h.parked) > 0 {
						continue
					}
					menu = append(menu, ev{fmt.Sprintf("%s sends %s for r%d", o.peer.name, kn, o.req), func() bool { return deliver(o, kind) }})
				}
			}
			if len(batches) > 0 {
				menu = append(menu, ev{"advance 2s", func() bool { advances++; time.Sleep(2 * time.Second); return true }})
			}
			for _, p := range peers {
				p := p
				if !p.gone {
					menu = append(menu, ev{"disconnect(" + p.name + ")", func() bool { disconnect(p); return true }})
				}
			}
			for _, b := range batches {
				b := b
				if b.cancel != nil && !b.canceled {
					menu = append(menu, ev{fmt.Sprintf("cancel(batch %d)", b.id), func() bool { b.canceled = true; close(b.cancel); return true }})
				}
			}
			if bursts == 2 && len(batches) < 2 && len(h.parked) == 0 {
				// a batch is handed in while a connected peer leaves, by
				// two goroutines in one step: the hand-over of a job to a
				// worker can then overlap its peer's departure
				for _, p := range peers {
					p := p
					if p.gone {
						continue
					}
					for _, queryFirst := range []bool{true, false} {
						queryFirst := queryFirst
						name := fmt.Sprintf("Query(1 request, default) and disconnect(%s) at once, ", p.name)
						if queryFirst {
							name += "Query running first"
						} else {
							name += "the disconnect running first"
						}
						menu = append(menu, ev{name, func() bool {
							b := &c12batch{id: len(batches), optName: "default"}
							b.reqs = append(b.reqs, nextReq)
							reqs := []*query.Request{h.request(nextReq)}
							nextReq++
							q := func() { pendingTasks = append(pendingTasks, verifbubble.Go("Query", func() (any, error) { b.ch = wm.Query(reqs); return nil, nil })) }
							d := func() { verifbubble.Go("disconnect", func() (any, error) { close(p.disc); return nil, nil }) }
							p.gone = true
							var keep []*c12out
							for _, o := range h.outstanding {
								if o.peer != p {
									keep = append(keep, o)
								}
							}
							h.outstanding = keep
							if queryFirst {
								d()
								q()
							} else {
								q()
								d()
							}
							verifbubble.Wait()
							if b.ch == nil {
								c.Fail("stuck", "not-serving:Query", "Query was not taken up although every goroutine is idle: the dispatcher has stopped serving")
								return false
							}
							batches = append(batches, b)
							return true
						}})
					}
					break
				}
			}
			if bursts == 2 && len(batches) < 2 && len(h.parked) == 0 {
				// Query and Stop by two callers at once: with a
				// preemption inside either, Stop may fall between two
				// statements of Query
				// (the goroutine launched last gets the processor first)
				for _, stopFirst := range []bool{false, true} {
					stopFirst := stopFirst
					name := "Query(1 request, default) and Stop by two callers at once, Stop running first"
					if !stopFirst {
						name = "Query(1 request, default) and Stop by two callers at once, Query running first"
					}
					menu = append(menu, ev{name, func() bool {
						stopped = true
						b := &c12batch{id: len(batches), optName: "default"}
						b.reqs = append(b.reqs, nextReq)
						reqs := []*query.Request{h.request(nextReq)}
						nextReq++
						queryBatch = b
						if stopFirst {
							queryTask = verifbubble.Go("Query", func() (any, error) { b.ch = wm.Query(reqs); return nil, nil })
						}
						stopTask = verifbubble.Go("Stop", func() (any, error) { wm.Stop(); return nil, nil })
						if !stopFirst {
							queryTask = verifbubble.Go("Query", func() (any, error) { b.ch = wm.Query(reqs); return nil, nil })
						}
						return true
					}})
				}
			}
			menu = append(menu, ev{"Stop", func() bool {
				stopped = true
				if len(h.parked) == 0 {
					return act("Stop", func() { wm.Stop() })
				}
				// Stop may wait for a handler that is still running
				stopTask = verifbubble.Go("Stop", func() (any, error) { wm.Stop(); return nil, nil })
				verifbubble.Wait()
				return true
			}})
		}
		for id, g := range h.parked {
			id, g := id, g
			menu = append(menu, ev{fmt.Sprintf("the handler of r%d returns", id), func() bool {
				delete(h.parked, id)
				close(g)
				return true
			}})
		}
		if len(menu) == 0 {
			break
		}
		e := menu[c.ChooseFree(len(menu), "event")]
		c.Step("%s%s", e.name, burst.Begin())
		if !e.run() {
			return
		}
	}
	if c.Failed() {
		return
	}
	verifbubble.Wait()
	burst.End()
	burst.Off()
	for id, g := range h.parked {
		delete(h.parked, id)
		close(g)
	}
	verifbubble.Wait()
	if queryTask != nil {
		if !queryTask.Done() {
			c.Fail("stuck", "query-caller-blocked-after-stop", "Query and Stop were called at the same time; Stop has returned (%v) and every goroutine is idle, but the caller of Query is still blocked inside the call", stopTask.Done())
			return
		}
		batches = append(batches, queryBatch)
		queryTask = nil
	}
	if stopTask != nil && !stopTask.Done() {
		c.Fail("stuck", "stop-blocks-after-handler-returned", "Stop was called while a response handler was running; the handler has returned and every goroutine is idle, but Stop has not returned")
		return
	}
	dedupeOut()

	if idlePeerUnused() {
		return
	}
	// ---- chatty holders: every peer that holds a request keeps sending
	// unrelated messages, one a second, for longer than the longest request
	// timeout (32 s). Each of these requests must have been timed out at
	// its worker by then - taken back and re-issued (a new send), or its
	// batch ended - traffic that is no progress must not keep it alive.
	if !stopped && len(h.outstanding) > 0 {
		start := map[*c12out]bool{}
		for _, o := range h.outstanding {
			if !o.peer.gone && !shadowed(o.peer) {
				start[o] = true
			}
		}
		// a request's timeout starts at 2 s and doubles every time it
		// expires, which takes virtual time: "advance 2s" steps
		rounds := 2<<advances + 2
		if rounds > 36 {
			rounds = 36
		}
		for round := 0; round < rounds && len(start) > 0 && !c.Failed(); round++ {
			for _, o := range append([]*c12out(nil), h.outstanding...) {
				if start[o] && !o.peer.gone {
					if !act(fmt.Sprintf("chatty(%s,r%d)", o.peer.name, o.req), func() {
						select {
						case o.peer.msgs <- c12msg(o.req, kindUnrelated):
						case <-time.After(time.Millisecond):
							// its worker is not reading (it has given the job back)
						}
					}) {
						return
					}
				}
			}
			time.Sleep(time.Second)
			verifbubble.Wait()
			dedupeOut()
		}
		for _, o := range h.outstanding {
			if !start[o] || o.peer.gone || o.peer.last != o {
				continue
			}
			for _, b := range batches {
				for _, r := range b.reqs {
					if r == o.req && !verdictIn(b) && !h.finished[r] {
						c.Fail("reissue", "request-kept-alive-by-unrelated-traffic",
							"request r%d of batch %d (%s) has been with peer %s for %d s (longer than its timeout can be by now) in which the peer sent only unrelated messages (no answer, no progress); it was neither timed out and re-issued nor did its batch end (sent so far: %v)",
							r, b.id, b.optName, o.peer.name, rounds, h.sent)
						return
					}
				}
			}
		}
	}
	// ---- liveness probe: a later batch with a responsive fresh peer must
	// complete, whatever happened to the earlier batches.
	if !stopped {
		if !connect("Z") {
			return
		}
		probe := len(batches)
		newBatchProbe := func() { newBatch(1, 2) }
		newBatchProbe()
		done := false
		for round := 0; round < 60 && !done; round++ {
			verifbubble.Wait()
			dedupeOut()
			select {
			case err := <-batches[probe].ch:
				if err != nil {
					c.Fail("probe", "later-batch-fails", "a later batch (no retry limit, no timeouts) on a responsive peer ended with %v", err)
					return
				}
				batches[probe].ch <- nil // put back for the final accounting
				done = true
				continue
			default:
			}
			progressed := false
			for _, o := range append([]*c12out(nil), h.outstanding...) {
				if o.peer.gone {
					continue
				}
				if !deliver(o, kindValid) {
					return
				}
				progressed = true
			}
			if !progressed {
				time.Sleep(2 * time.Second)
			}
		}
		if !done {
			c.Fail("blocked-later-batch", "later-batch-never-completes",
				"a later batch never completes although a fresh responsive peer answers every request it is given (sent so far: %v)", h.sent)
			return
		}
		if !act("Stop", func() { wm.Stop() }) {
			return
		}
	}
	verifbubble.Wait()
	// ---- exactly one verdict per batch
	var obs []string
	for _, b := range batches {
		var got []error
		for i := 0; i < 3; i++ {
			select {
			case err := <-b.ch:
				got = append(got, err)
			default:
			}
		}
		if len(got) != 1 {
			c.Fail("verdicts", fmt.Sprintf("batch-has-%d-verdicts", len(got)),
				"batch %d (%s, requests %v) produced %d results %v after Stop; exactly one is required", b.id, b.optName, b.reqs, len(got), got)
			return
		}
		err := got[0]
		if err == nil {
			for _, r := range b.reqs {
				if !h.finished[r] {
					c.Fail("false-success", "success-with-unanswered-request",
						"batch %d reported success but request r%d was never answered to its handler's satisfaction", b.id, r)
					return
				}
			}
		} else {
			switch err {
			case query.ErrQueryTimeout, query.ErrPeerDisconnected, query.ErrJobCanceled, query.ErrWorkManagerShuttingDown:
			default:
				c.Fail("verdicts", "undocumented-error", "batch %d ended with undocumented error %v", b.id, err)
				return
			}
			if err == query.ErrJobCanceled && !b.canceled {
				c.Fail("verdicts", "canceled-without-cancel", "batch %d (%s) ended with ErrJobCanceled although nobody cancelled it", b.id, b.optName)
				return
			}
		}
		obs = append(obs, fmt.Sprintf("%s:%v", b.optName, err))
	}
	if !feedCancelled {
		c.Fail("shutdown", "peer-feed-not-cancelled", "Stop returned without cancelling the connected-peers subscription")
		return
	}
	sort.Strings(obs)
	c.Obs(strings.Join(obs, ","))
}

func (h *c12h) removeOut(o *c12out) {
	for i, x := range h.outstanding {
		if x == o {
			h.outstanding = append(h.outstanding[:i:i], h.outstanding[i+1:]...)
			return
		}
	}
}

func TestVFXC12(t *testing.T) {
	tier := verifeng.Tier()
	depth, peers := 7, 2
	if tier == "thorough" {
		depth, peers = 8, 3
	}
	if rp := os.Getenv("VFX_REPLAY"); rp != "" {
		v, err := verifeng.LoadReplay(rp)
		if err != nil {
			t.Fatal(err)
		}
		fmt.Sscanf(v.Config, "depth=%d peers=%d", &depth, &peers)
		e := verifeng.FromEnv(v.Harness, v.Config)
		_, x, err := e.ReplayFile(rp, c12Body(t, depth, peers, map[bool]int{true: 1}[strings.Contains(v.Config, "in-burst")]+map[bool]int{true: 2}[strings.Contains(v.Config, "preemption")]))
		if err != nil {
			t.Fatal(err)
		}
		for _, ev := range x.Events {
			fmt.Println("  ", ev)
		}
		if x.Viol != nil {
			fmt.Printf("REPLAY-VIOLATION clause=%s sig=%s\n%s\n", x.Viol.Clause, x.Viol.Sig, x.Viol.Detail)
		} else {
			fmt.Println("REPLAY-OK no violation")
		}
		return
	}
	e := verifeng.FromEnv("C12-dispatcher", fmt.Sprintf("depth=%d peers=%d", depth, peers))
	e.Run(c12Body(t, depth, peers, 0))
	if err := verifeng.AppendResult(&e.Res); err != nil {
		t.Fatal(err)
	}
	// the order inside a burst as a further dimension (DESIGN 3.7)
	bd := depth - 2
	e = verifeng.FromEnv("C12-dispatcher", fmt.Sprintf("depth=%d peers=%d in-burst deviations<=1", bd, peers))
	e.MaxDev = 1
	e.Run(c12Body(t, bd, peers, 1))
	if err := verifeng.AppendResult(&e.Res); err != nil {
		t.Fatal(err)
	}
	// one preemption at a synchronisation point (DESIGN 3.9)
	pd := depth - 3
	e = verifeng.FromEnv("C12-dispatcher", fmt.Sprintf("depth=%d peers=%d preemption at a synchronisation point<=1", pd, peers))
	e.MaxDev = 1
	e.Run(c12Body(t, pd, peers, 2))
	if err := verifeng.AppendResult(&e.Res); err != nil {
		t.Fatal(err)
	}
}

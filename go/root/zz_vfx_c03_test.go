package neutrino

// C03 / C19 — committed filter headers track the header chain and resist
// false filter headers; emitted chain events mirror exactly how the committed
// chain changed. A STARTED blockManager (blockHandler + cfHandler) in a
// synctest bubble over real stores; the harness owns the three seams the
// repository's own tests mock (queryAllPeers, GetBlock, BanPeer), the peers'
// behaviours, the arrival of header batches, virtual time, and the receiving
// end of the notification channel. One stimulus per quiescent point.

import (
	"fmt"
	"os"
	"sort"
	"strings"
	"testing"
	"time"

	"github.com/btcsuite/btcd/btcutil/v2"
	"github.com/btcsuite/btcd/chaincfg/v2"
	"github.com/btcsuite/btcd/chainhash/v2"
	"github.com/btcsuite/btcd/wire/v2"
	"github.com/lightninglabs/neutrino/banman"
	"github.com/lightninglabs/neutrino/blockntfns"
	"github.com/lightninglabs/neutrino/headerfs"
	"github.com/lightninglabs/neutrino/internal/verifbubble"
	"github.com/lightninglabs/neutrino/internal/verifchain"
	"github.com/lightninglabs/neutrino/internal/verifeng"
	"github.com/lightninglabs/neutrino/internal/verifhfs"
)

type c03fix struct {
	params *chaincfg.Params
	now    time.Time
	trunk  []*verifchain.Node
	fork   []*verifchain.Node // fork[i] has height i+2, parent of fork[0] is trunk[1]
	data   map[chainhash.Hash]*verifchain.BlockData
	byHash map[chainhash.Hash]*verifchain.Node
}

const c03TrunkLen = 5

var c03fixture *c03fix

func getC03Fixture() *c03fix {
	if c03fixture != nil {
		return c03fixture
	}
	p := verifchain.Params(verifchain.Opt{Net: 0x0b11fefd})
	f := &c03fix{params: p, data: map[chainhash.Hash]*verifchain.BlockData{}, byHash: map[chainhash.Hash]*verifchain.Node{}}
	g := verifchain.Genesis(p)
	f.byHash[g.Hash] = g
	f.trunk = []*verifchain.Node{g}
	cur := g
	for i := 1; i <= c03TrunkLen; i++ {
		n, d := verifchain.MineBlock(p, cur, 10*time.Minute, 1, fmt.Sprintf("T%d", i))
		f.trunk = append(f.trunk, n)
		f.data[n.Hash], f.byHash[n.Hash] = d, n
		cur = n
	}
	cur = f.trunk[1]
	for i := 0; i < c03TrunkLen; i++ {
		n, d := verifchain.MineBlock(p, cur, 9*time.Minute, 2, fmt.Sprintf("B%d", cur.Height+1))
		f.fork = append(f.fork, n)
		f.data[n.Hash], f.byHash[n.Hash] = d, n
		cur = n
	}
	f.now = f.trunk[c03TrunkLen].Hdr.Timestamp.Add(time.Hour)
	c03fixture = f
	return f
}

func (f *c03fix) label(h chainhash.Hash) string {
	if n, ok := f.byHash[h]; ok {
		return n.Label
	}
	return "?" + h.String()[:6]
}

type c03peer struct {
	name      string
	sp        *ServerPeer
	remote    *vfxRemote
	behaviour string
	lieAt     int32
	banned    bool
	lied      bool // its false value was part of a completed cfheaders answer next to an honest one
}

type c03query struct {
	msg   wire.Message
	check func(sp *ServerPeer, resp wire.Message, quit chan<- struct{}, peerQuit chan<- struct{})
	done  chan struct{}
}

// a virtual subscriber replaying backlog + later events
type c03client struct {
	name  string
	chain []wire.BlockHeader // index = height
}

// c03SlowFS is the filter header store as the block manager sees it: a
// commit may take its time before it starts (the caller is parked with
// whatever it holds, before the store's own lock is taken).
type c03SlowFS struct {
	headerfs.FilterHeaderStore
	h *c03h
}

func (s *c03SlowFS) WriteHeaders(hdrs ...headerfs.FilterHeader) error {
	if s.h.writeGate != nil {
		s.h.writeGate()
	}
	return s.FilterHeaderStore.WriteHeaders(hdrs...)
}

type c03h struct {
	writeGate  func()
	beforeRead func()
	c          *verifeng.Chooser
	f          *c03fix
	bm         *blockManager
	bs         headerfs.BlockHeaderStore
	fs         headerfs.FilterHeaderStore
	genFH      chainhash.Hash
	peers      []*c03peer
	bans       map[string]banman.Reason
	pending    *c03query
	clients    []*c03client
	oracle     string
	nrecv      int
	// blocks whose filter header was committed at some quiescent point
	committedEver map[chainhash.Hash]bool
	// block headers seen in the store at one quiescent point and gone at
	// a later one, and the disconnected events received
	lastStored  []wire.BlockHeader
	removedEver map[chainhash.Hash]int32
	discSeen    map[chainhash.Hash]bool
}

var c03behaviours = []string{"honest", "lies-serves-false-filter", "lies-serves-true-filter",
	"lies-serves-no-filter", "lies-about-prev-header", "silent"}

// truthFH returns the true filter header of node n (along its own branch).
func (h *c03h) truthFH(n *verifchain.Node) chainhash.Hash {
	if n.Height == 0 {
		return h.genFH
	}
	return verifchain.NextFilterHeader(h.f.data[n.Hash].FilterHash, h.truthFH(n.Parent))
}

// answer computes what peer p replies to a broadcast query, or nil.
func (h *c03h) answer(p *c03peer, q wire.Message) wire.Message {
	f := h.f
	if p.behaviour == "silent" {
		return nil
	}
	switch m := q.(type) {
	case *wire.MsgGetCFHeaders:
		stop, ok := f.byHash[m.StopHash]
		if !ok || uint32(stop.Height) < m.StartHeight {
			return nil
		}
		var path []*verifchain.Node
		for n := stop; n != nil && uint32(n.Height) >= m.StartHeight; n = n.Parent {
			path = append([]*verifchain.Node{n}, path...)
		}
		resp := wire.NewMsgCFHeaders()
		resp.FilterType = m.FilterType
		resp.StopHash = m.StopHash
		resp.PrevFilterHeader = h.truthFH(path[0].Parent)
		if p.behaviour == "lies-about-prev-header" {
			resp.PrevFilterHeader[3] ^= 0x40
		}
		for _, n := range path {
			fh := f.data[n.Hash].FilterHash
			if strings.HasPrefix(p.behaviour, "lies-serves") && n.Height == p.lieAt {
				fh = f.data[n.Hash].BadHash
			}
			c := fh
			resp.AddCFHash(&c)
		}
		return resp
	case *wire.MsgGetCFilters:
		n, ok := f.byHash[m.StopHash]
		if !ok {
			return nil
		}
		d := f.data[n.Hash]
		flt := d.Filter
		switch {
		case p.behaviour == "lies-serves-no-filter" && n.Height == p.lieAt:
			return nil
		case p.behaviour == "lies-serves-false-filter" && n.Height == p.lieAt:
			flt = d.BadFilter
		}
		data, err := flt.NBytes()
		if err != nil {
			panic(err)
		}
		return wire.NewMsgCFilter(m.FilterType, &n.Hash, data)
	}
	return nil
}

func (h *c03h) queryAllPeers(msg wire.Message,
	check func(sp *ServerPeer, resp wire.Message, quit chan<- struct{}, peerQuit chan<- struct{}),
	_ ...QueryOption) {

	q := &c03query{msg: msg, check: check, done: make(chan struct{})}
	h.pending = q
	<-q.done
}

// completeQuery lets every (connected, not banned) peer answer the pending
// broadcast query according to its behaviour, then ends the query.
func (h *c03h) completeQuery() {
	q := h.pending
	h.pending = nil
	if gh, ok := q.msg.(*wire.MsgGetCFHeaders); ok {
		h.c.Note("answering getcfheaders(start %d, stop %s)", gh.StartHeight, h.f.label(gh.StopHash))
	}
	if gf, ok := q.msg.(*wire.MsgGetCFilters); ok {
		h.c.Note("answering getcfilters(height %d, block %s)", gf.StartHeight, h.f.label(gf.StopHash))
	}
	quit := make(chan struct{})
	honest := false
	var liars []*c03peer
	for _, p := range h.peers {
		if p.banned {
			continue
		}
		select {
		case <-quit:
			continue
		default:
		}
		resp := h.answer(p, q.msg)
		if resp == nil {
			continue
		}
		if gh, ok := q.msg.(*wire.MsgGetCFHeaders); ok {
			stop := h.f.byHash[gh.StopHash]
			inRange := int32(gh.StartHeight) <= p.lieAt && p.lieAt <= stop.Height
			if p.behaviour == "honest" {
				honest = true
			} else if strings.HasPrefix(p.behaviour, "lies-serves") && inRange {
				liars = append(liars, p)
			} else if p.behaviour == "lies-about-prev-header" {
				liars = append(liars, p)
			}
		}
		peerQuit := make(chan struct{})
		q.check(p.sp, resp, quit, peerQuit)
	}
	if honest {
		for _, p := range liars {
			p.lied = true
		}
	}
	close(q.done)
}

func (h *c03h) storeChains() (blocks []wire.BlockHeader, filters []chainhash.Hash, bad string) {
	if h.beforeRead != nil {
		// a slow file write that is still parked holds its store's lock:
		// it completes before the observer looks
		h.beforeRead()
	}
	_, bt, err := h.bs.ChainTip()
	if err != nil {
		return nil, nil, "block ChainTip: " + err.Error()
	}
	for i := uint32(0); i <= bt; i++ {
		hd, err := h.bs.FetchHeaderByHeight(i)
		if err != nil {
			return nil, nil, fmt.Sprintf("block FetchHeaderByHeight(%d): %v", i, err)
		}
		blocks = append(blocks, *hd)
	}
	_, ft, err := h.fs.ChainTip()
	if err != nil {
		return blocks, nil, "filter ChainTip: " + err.Error()
	}
	for i := uint32(0); i <= ft; i++ {
		fh, err := h.fs.FetchHeaderByHeight(i)
		if err != nil {
			return blocks, nil, fmt.Sprintf("filter FetchHeaderByHeight(%d) at or below the filter tip %d: %v", i, ft, err)
		}
		filters = append(filters, *fh)
	}
	return blocks, filters, ""
}

// sampleCommitted records which blocks currently have a committed filter
// header (called at every quiescent point).
func (h *c03h) sampleCommitted() {
	if h.committedEver == nil {
		h.committedEver = map[chainhash.Hash]bool{}
	}
	blocks, filters, bad := h.storeChains()
	if bad != "" {
		return
	}
	for i := 0; i < len(filters) && i < len(blocks); i++ {
		h.committedEver[blocks[i].BlockHash()] = true
	}
	if h.removedEver == nil {
		h.removedEver = map[chainhash.Hash]int32{}
		h.discSeen = map[chainhash.Hash]bool{}
	}
	common := 0
	for common < len(h.lastStored) && common < len(blocks) && h.lastStored[common] == blocks[common] {
		common++
	}
	for i := common; i < len(h.lastStored); i++ {
		h.removedEver[h.lastStored[i].BlockHash()] = int32(i)
	}
	h.lastStored = blocks
}

// checkC03 is evaluated at every quiescent point.
func (h *c03h) checkC03(when string) bool {
	blocks, filters, bad := h.storeChains()
	if bad != "" {
		return h.c.Fail("C03", "C03:stores-unreadable", "%s: %s", when, bad)
	}
	if len(filters) > len(blocks) {
		return h.c.Fail("C03", "C03:filter-chain-ahead", "%s: filter tip %d is ahead of the block tip %d", when, len(filters)-1, len(blocks)-1)
	}
	for i := 1; i < len(filters); i++ {
		n, ok := h.f.byHash[blocks[i].BlockHash()]
		if !ok {
			return h.c.Fail("C03", "C03:unknown-block", "%s: unknown block stored at height %d", when, i)
		}
		if want := h.truthFH(n); filters[i] != want {
			sig := "C03:false-filter-header-committed"
			// which kind of wrong?
			for _, m := range h.f.byHash {
				if m.Height == int32(i) && m != n && h.truthFH(m) == filters[i] {
					sig = "C03:filter-header-of-disconnected-block"
				}
			}
			return h.c.Fail("C03", sig, "%s: committed filter header at height %d is not the BIP157 header of the block %s currently stored there", when, i, n.Label)
		}
		fh, err := h.fs.FetchHeader(&n.Hash)
		if err != nil || *fh != filters[i] {
			return h.c.Fail("C03", "C03:filter-lookup-by-hash", "%s: filter header of %s by block hash: err=%v", when, n.Label, err)
		}
	}
	for _, p := range h.peers {
		if p.behaviour == "honest" && p.banned {
			return h.c.Fail("C03", "C03:honest-peer-banned", "%s: the honest peer %s was banned (%v)", when, p.name, h.bans[p.sp.Addr()])
		}
	}
	return false
}

// onNotification applies one received event to every virtual subscriber and
// checks the per-event clauses of C19.
func (h *c03h) onNotification(n blockntfns.BlockNtfn) bool {
	c, f := h.c, h.f
	h.nrecv++
	if h.oracle == "C03" {
		return false
	}
	hdr := n.Header()
	hash := hdr.BlockHash()
	switch n.(type) {
	case *blockntfns.Connected:
		// An event may be received long after it was emitted (the chain
		// may have moved on), so the "only after the commitment is
		// stored" clause is judged against what has ever been committed,
		// sampled at every quiescent point: the emitter writes the
		// whole batch and then blocks on its first event.
		node, ok := f.byHash[hash]
		if !ok || node.Height != int32(n.Height()) {
			return c.Fail("C19", "C19:connected-wrong-header", "connected(height %d) carries %s, which is not a block of that height", n.Height(), f.label(hash))
		}
		if !h.committedEver[hash] {
			return c.Fail("C19", "C19:connected-before-commit", "connected(%s, height %d) was emitted although no filter header was ever committed for that block", f.label(hash), n.Height())
		}
	case *blockntfns.Disconnected:
		h.discSeen[hash] = true
		tip := n.ChainTip()
		if tip.BlockHash() != hdr.PrevBlock {
			return c.Fail("C19", "C19:disconnected-wrong-new-tip", "disconnected(%s) names %s as the tip afterwards, which is not its predecessor", f.label(hash), f.label(tip.BlockHash()))
		}
	}
	for _, cl := range h.clients {
		tipH := len(cl.chain) - 1
		switch n.(type) {
		case *blockntfns.Connected:
			switch {
			case int(n.Height()) <= tipH && cl.chain[n.Height()] == hdr:
				// already held: skipped
			case int(n.Height()) == tipH+1 && hdr.PrevBlock == cl.chain[tipH].BlockHash():
				cl.chain = append(cl.chain, hdr)
			default:
				return c.Fail("C19", "C19:connected-does-not-extend:"+cl.kind(),
					"subscriber %s holds [%s] and received connected(%s, height %d), which neither extends its tip nor is a block it already holds",
					cl.name, h.labels(cl.chain), f.label(hash), n.Height())
			}
		case *blockntfns.Disconnected:
			if int(n.Height()) != tipH || cl.chain[tipH] != hdr {
				if int(n.Height()) > tipH {
					// a block above what this subscriber holds (its
					// filter header was never committed / not in its
					// backlog): nothing to undo.
					continue
				}
				return c.Fail("C19", "C19:disconnected-not-tip:"+cl.kind(),
					"subscriber %s holds [%s] and received disconnected(%s, height %d), which is not its tip",
					cl.name, h.labels(cl.chain), f.label(hash), n.Height())
			}
			cl.chain = cl.chain[:tipH]
		}
	}
	return false
}

func (cl *c03client) kind() string {
	if cl.name == "from-genesis" {
		return "live"
	}
	return "backlog"
}

func (h *c03h) labels(ch []wire.BlockHeader) string {
	var l []string
	for _, x := range ch {
		l = append(l, h.f.label(x.BlockHash()))
	}
	return strings.Join(l, " ")
}

// probeBacklog registers a virtual subscriber that already holds the
// committed chain up to height ht.
func (h *c03h) probeBacklog(ht uint32) bool {
	c := h.c
	blocks, filters, bad := h.storeChains()
	if bad != "" {
		return c.Fail("C19", "C19:stores-unreadable", "%s", bad)
	}
	ntfns, best, err := h.bm.NotificationsSinceHeight(ht)
	ftip := uint32(len(filters) - 1)
	if ht > ftip {
		if err == nil {
			return c.Fail("C19", "C19:backlog-above-tip-accepted", "NotificationsSinceHeight(%d) succeeded although only heights up to %d are committed", ht, ftip)
		}
		return false
	}
	if err != nil {
		return c.Fail("C19", "C19:backlog-error", "NotificationsSinceHeight(%d): %v (filter tip %d)", ht, err, ftip)
	}
	if best != ftip {
		return c.Fail("C19", "C19:backlog-wrong-best-height", "NotificationsSinceHeight(%d) reports best height %d, committed filter tip is %d", ht, best, ftip)
	}
	if len(ntfns) != int(ftip-ht) {
		return c.Fail("C19", "C19:backlog-not-committed-blocks", "NotificationsSinceHeight(%d) returned %d events, the committed blocks above that height are %d..%d", ht, len(ntfns), ht+1, ftip)
	}
	cl := &c03client{name: fmt.Sprintf("backlog-from-%d-after-%d-events", ht, h.nrecv),
		chain: append([]wire.BlockHeader(nil), blocks[:ht+1]...)}
	for i, n := range ntfns {
		want := blocks[ht+1+uint32(i)]
		if _, ok := n.(*blockntfns.Connected); !ok || n.Height() != ht+1+uint32(i) || n.Header() != want {
			return c.Fail("C19", "C19:backlog-not-committed-blocks", "backlog entry %d of NotificationsSinceHeight(%d) is not connected(committed block at height %d)", i, ht, ht+1+uint32(i))
		}
		cl.chain = append(cl.chain, want)
	}
	h.clients = append(h.clients, cl)
	return false
}

func c03Body(t *testing.T, depth, npeers int, oracle string) func(c *verifeng.Chooser) {
	f := getC03Fixture()
	return func(c *verifeng.Chooser) {
		var env *verifhfs.Env
		out := verifbubble.Run(t, func() {
			env = verifhfs.NewEnv(c)
			env.Quiet = true
			env.MemFiles = true
			c03Run(c, f, env, depth, npeers, oracle)
		})
		if env != nil {
			env.Cleanup()
		}
		switch {
		case out.Panic != nil:
			if ie, ok := out.Panic.(verifeng.InfraError); ok {
				panic(ie)
			}
			c.Fail("panic", "panic:"+firstWords(fmt.Sprint(out.Panic)), "%v", out.Panic)
		case out.Deadlock != "":
			c.Fail("stuck", "controller-deadlock", "%s", out.Deadlock)
		case out.Hang:
			c.Fail("hang", "hang", "the bubble never became quiescent")
		case out.Leak != "" && !c.Failed():
			c.Fail("leak", "goroutines-left-after-stop", "%s", out.Leak)
		}
	}
}

func c03Run(c *verifeng.Chooser, f *c03fix, env *verifhfs.Env, depth, npeers int, oracle string) {
	h := &c03h{c: c, f: f, bans: map[string]banman.Reason{}, oracle: oracle}
	var err error
	h.bs, err = headerfs.NewBlockHeaderStore(env.Dir, env.DB, f.params)
	if err != nil {
		panic(verifeng.InfraError{Msg: "setup: " + err.Error()})
	}
	h.fs, err = headerfs.NewFilterHeaderStore(env.Dir, env.DB, headerfs.RegularFilter, f.params, nil)
	if err != nil {
		panic(verifeng.InfraError{Msg: "setup: " + err.Error()})
	}
	gfh, _, err := h.fs.ChainTip()
	if err != nil {
		panic(verifeng.InfraError{Msg: "setup: " + err.Error()})
	}
	h.genFH = *gfh
	first := make(chan struct{})
	h.bm, err = newBlockManager(&blockManagerCfg{
		ChainParams:      *f.params,
		BlockHeaders:     h.bs,
		RegFilterHeaders: &c03SlowFS{FilterHeaderStore: h.fs, h: h},
		TimeSource:       vfxTime{f.now},
		BanPeer: func(addr string, r banman.Reason) error {
			h.bans[addr] = r
			_, ft, _ := h.fs.ChainTip()
			_, bt, _ := h.bs.ChainTip()
			c.Note("BanPeer(%s, %v) with filter tip %d, block tip %d", addr, r, ft, bt)
			for _, p := range h.peers {
				if p.sp.Addr() == addr {
					p.banned = true
				}
			}
			return nil
		},
		GetBlock: func(hash chainhash.Hash, _ ...QueryOption) (*btcutil.Block, error) {
			d, ok := f.data[hash]
			if !ok {
				return nil, fmt.Errorf("unknown block")
			}
			return btcutil.NewBlock(d.Block), nil
		},
		firstPeerSignal: first,
		queryAllPeers:   h.queryAllPeers,
	})
	if err != nil {
		panic(verifeng.InfraError{Msg: "setup: " + err.Error()})
	}

	// scenario: behaviours of the non-sync peers and where they lie
	srv := &ChainService{}
	for i := 0; i < npeers; i++ {
		p := &c03peer{name: string(rune('P' + i)), behaviour: "honest"}
		if i > 0 {
			p.behaviour = c03behaviours[c.ChooseFree(len(c03behaviours), "behaviour")]
			if strings.HasPrefix(p.behaviour, "lies-serves") {
				p.lieAt = int32(1 + c.ChooseFree(3, "lie-at"))
			}
		}
		sp, r, err := vfxNewPeer(srv, f.params, fmt.Sprintf("10.0.0.%d:18444", i+1),
			wire.SFNodeNetwork|wire.SFNodeWitness|wire.SFNodeCF, c03TrunkLen-1, nil)
		if err != nil {
			panic(verifeng.InfraError{Msg: err.Error()})
		}
		p.sp, p.remote = sp, r
		h.peers = append(h.peers, p)
	}
	verifbubble.Wait()
	var scen []string
	for _, p := range h.peers[1:] {
		scen = append(scen, fmt.Sprintf("%s=%s@%d", p.name, p.behaviour, p.lieAt))
	}
	c.Note("peers: P=honest(sync) %s", strings.Join(scen, " "))

	h.clients = []*c03client{{name: "from-genesis", chain: []wire.BlockHeader{f.trunk[0].Hdr}}}
	// One stimulus at a time, also during start-up: the order in which the
	// filter-header handler starts and the block handler learns about its
	// first peers matters (before a sync peer is chosen the client believes
	// it is current), so it is a scenario choice, not left to the scheduler.
	h.bm.Start()
	verifbubble.Wait()
	cfFirst := c.ChooseFree(2, "start-order") == 1
	if cfFirst {
		c.Note("the filter-header handler starts before the peers are announced")
		close(first)
		verifbubble.Wait()
	}
	for _, p := range h.peers {
		h.bm.NewPeer(p.sp)
		verifbubble.Wait()
	}
	if !cfFirst {
		close(first)
		verifbubble.Wait()
	}
	slowWriteArmed, slowWrites := false, 0
	var parkedWrite chan struct{}
	h.writeGate = func() {
		if slowWriteArmed {
			slowWriteArmed = false
			g := make(chan struct{})
			parkedWrite = g
			<-g
		}
	}
	releaseWrite := func() {
		slowWriteArmed = false
		if parkedWrite != nil {
			close(parkedWrite)
			parkedWrite = nil
		}
	}
	h.beforeRead = releaseWrite
	stopped := false
	defer func() {
		// a write that is still parked completes first (Stop waits for the
		// handler that is in the middle of it)
		releaseWrite()
		if !stopped {
			h.drainUntilStopped()
		}
		for _, p := range h.peers {
			p.sp.Disconnect()
		}
		verifbubble.Wait()
	}()

	sendHeaders := func(nodes []*verifchain.Node) {
		msg := wire.NewMsgHeaders()
		for _, n := range nodes {
			hd := n.Hdr
			msg.Headers = append(msg.Headers, &hd)
		}
		h.bm.QueueHeaders(msg, h.peers[0].sp)
	}
	trunkSent := 0
	forkSent := false
	dupSent := false
	advances := 0
	probes := 0

	// recvOne takes one pending event off the notification channel, lets
	// the emitter run on to its next blocking point, and only then judges
	// the event (the stores must not be touched while the emitter is
	// runnable: a system call may hand the processor to it).
	recvOne := func() (bool, bool) {
		select {
		case n := <-h.bm.Notifications():
			verifbubble.Wait()
			h.sampleCommitted()
			return true, h.onNotification(n)
		default:
			return false, false
		}
	}

	var recvTask *verifbubble.Task
	stopRecv := make(chan struct{})
	defer close(stopRecv)
	// the order inside a burst as a further dimension (DESIGN 3.7)
	var burst *verifbubble.Burst
	if vfxInBurst {
		burst = verifbubble.NewBurst(c)
	}
	for d := 0; d < depth && !c.Failed(); d++ {
		verifbubble.Wait()
		burst.End()
		if sig, detail := verifbubble.LockOrder(); sig != "" {
			c.Fail(oracle, "lock-order-inversion:"+sig, "%s", detail)
			return
		}
		// while a write to the filter header file is parked its store is
		// locked: nothing is read from the stores (and no event that makes
		// the harness read them is offered) until it completes
		if parkedWrite == nil {
			h.sampleCommitted()
			if oracle != "C19" && h.checkC03(fmt.Sprintf("at quiescent point %d", d)) {
				return
			}
		}
		type ev struct {
			name string
			run  func() bool
		}
		var menu []ev
		// the receiving end of the notification channel: either one event
		// is taken (now, or as soon as one is emitted - the emitter stays
		// blocked until then), or everything pending is drained.
		if recvTask != nil && recvTask.Done() && parkedWrite == nil {
			n := recvTask.Val.(blockntfns.BlockNtfn)
			recvTask = nil
			c.Note("received event #%d", h.nrecv+1)
			if h.onNotification(n) {
				return
			}
		}
		if recvTask == nil && parkedWrite == nil {
			menu = append(menu, ev{"receiver takes one event", func() bool {
				recvTask = verifbubble.Go("recv", func() (any, error) {
					select {
					case n := <-h.bm.Notifications():
						return n, nil
					case <-stopRecv:
						return nil, fmt.Errorf("stopped")
					}
				})
				return true
			}})
			menu = append(menu, ev{"receiver drains pending events", func() bool {
				for {
					got, failed := recvOne()
					if failed {
						return false
					}
					if !got {
						return true
					}
				}
			}})
		}
		if trunkSent < c03TrunkLen-1 {
			for _, k := range []int{1, 2} {
				k := k
				if trunkSent+k <= c03TrunkLen-1 {
					menu = append(menu, ev{fmt.Sprintf("headers[T%d..T%d]", trunkSent+1, trunkSent+k), func() bool {
						sendHeaders(f.trunk[trunkSent+1 : trunkSent+k+1])
						trunkSent += k
						return true
					}})
				}
			}
		}
		if trunkSent >= 2 && !dupSent && !forkSent {
			menu = append(menu, ev{"headers[T1..T2] again (already known)", func() bool {
				sendHeaders(f.trunk[1:3])
				dupSent = true
				return true
			}})
		}
		if !forkSent && trunkSent >= 2 {
			menu = append(menu, ev{fmt.Sprintf("headers[B2..B%d] (heavier fork from T1)", trunkSent+2), func() bool {
				sendHeaders(f.fork[:trunkSent+1])
				forkSent = true
				return true
			}})
		}
		if h.pending != nil && parkedWrite == nil {
			menu = append(menu, ev{fmt.Sprintf("peers answer %T", h.pending.msg), func() bool { h.completeQuery(); return true }})
		}
		if advances < 3 {
			menu = append(menu, ev{"advance 3s", func() bool { advances++; time.Sleep(3 * time.Second); return true }})
		}
		// a write to the filter header file may take its time: the filter
		// header handler is then parked in the middle of a commit (holding
		// what it holds), and headers can arrive meanwhile
		if parkedWrite != nil {
			pw := parkedWrite
			menu = append(menu, ev{"the slow filter header commit goes ahead", func() bool { parkedWrite = nil; close(pw); return true }})
		} else if !slowWriteArmed && slowWrites < 1 && h.pending != nil {
			if _, ok := h.pending.msg.(*wire.MsgGetCFHeaders); ok {
				menu = append(menu, ev{"peers answer *wire.MsgGetCFHeaders, and the commit of the filter headers that follows is slow to start", func() bool {
					slowWriteArmed = true
					slowWrites++
					h.completeQuery()
					return true
				}})
			}
		}
		if oracle != "C03" && probes < 2 && parkedWrite == nil {
			for _, ht := range []uint32{1, 2} {
				ht := ht
				menu = append(menu, ev{fmt.Sprintf("subscriber registers with backlog from height %d", ht), func() bool {
					probes++
					return !h.probeBacklog(ht)
				}})
			}
		}
		if len(menu) == 0 {
			break
		}
		lbl := "event"
		if os.Getenv("VFX_DEBUGMENU") != "" {
			sp := h.bm.SyncPeer()
			spn, lb := "nil", int32(-1)
			if sp != nil {
				spn, lb = sp.Addr(), sp.LastBlock()
			}
			c.Note("sync=%s last=%d synced=%v pending=%v headerTip=%d now=%v", spn, lb, h.bm.BlockHeadersSynced(), h.pending != nil, h.bm.headerTip, time.Now().Unix())
			for _, m := range menu {
				lbl += "{" + m.name + "}"
			}
		}
		// Stop at this very point (as ChainService.Stop does it: nobody
		// reads the notification channel any more, pending queries end):
		// the deferred drainUntilStopped judges whether it returns.
		menu = append(menu, ev{"Stop", func() bool { return false }})
		e := menu[c.ChooseFree(len(menu), lbl)]
		c.Step("%s%s", e.name, burst.Begin())
		if !e.run() {
			return
		}
	}
	if c.Failed() {
		return
	}
	verifbubble.Wait()
	burst.End()
	burst.Off()
	releaseWrite()
	verifbubble.Wait()
	// ---- convergence: with the honest peer answering everything the
	// filter headers must catch up with the block headers.
	for round := 0; round < 60; round++ {
		verifbubble.Wait()
		h.sampleCommitted()
		if recvTask != nil {
			if !recvTask.Done() {
				// nothing was emitted for the waiting receiver yet
			} else {
				n := recvTask.Val.(blockntfns.BlockNtfn)
				recvTask = nil
				if h.onNotification(n) {
					return
				}
				continue
			}
		}
		if recvTask != nil {
			// let the outstanding receiver keep waiting; it takes the
			// next event as soon as one is emitted
		} else if got, failed := recvOne(); got {
			if failed {
				return
			}
			continue
		}
		if h.pending != nil {
			h.completeQuery()
			continue
		}
		_, bt, _ := h.bs.ChainTip()
		_, ft, _ := h.fs.ChainTip()
		if bt == ft {
			break
		}
		time.Sleep(3 * time.Second)
	}
	verifbubble.Wait()
	if oracle != "C19" {
		if h.checkC03("after convergence") {
			return
		}
		_, bt, _ := h.bs.ChainTip()
		_, ft, _ := h.fs.ChainTip()
		if bt != ft && trunkSent > 0 && h.bm.BlockHeadersSynced() {
			c.Fail("C03", "C03:filter-headers-do-not-catch-up", "with an honest peer answering every query the filter tip stays at %d, block tip %d", ft, bt)
			return
		}
		for _, p := range h.peers {
			if p.lied && !p.banned {
				c.Fail("C03", "C03:liar-not-banned:"+p.behaviour, "peer %s (%s at height %d) served a provably false filter header next to an honest peer and was not banned", p.name, p.behaviour, p.lieAt)
				return
			}
		}
	}
	if oracle != "C03" {
		h.sampleCommitted()
		for hash, ht := range h.removedEver {
			if !h.discSeen[hash] {
				kind := "uncommitted"
				if h.committedEver[hash] {
					kind = "committed"
				}
				c.Fail("C19", "C19:removed-block-not-announced:"+kind,
					"block header %s (height %d) was removed from the store by a rollback but never announced as disconnected", f.label(hash), ht)
				return
			}
		}
		blocks, filters, bad := h.storeChains()
		if bad != "" {
			c.Fail("C19", "C19:stores-unreadable", "%s", bad)
			return
		}
		committed := blocks[:len(filters)]
		for _, cl := range h.clients {
			if h.labels(cl.chain) != h.labels(committed) {
				c.Fail("C19", "C19:replay-differs-from-committed-chain:"+cl.kind(),
					"subscriber %s replayed backlog and events to [%s], the committed chain is [%s]", cl.name, h.labels(cl.chain), h.labels(committed))
				return
			}
		}
	}
	// ---- stop
	stopped = true
	h.drainUntilStopped()
	var bans []string
	for _, p := range h.peers {
		if p.banned {
			bans = append(bans, p.name)
		}
	}
	sort.Strings(bans)
	blocks, filters, _ := h.storeChains()
	c.Obs(fmt.Sprintf("%s | ftip=%d banned=%v events=%d", h.labels(blocks), len(filters)-1, bans, h.nrecv))
}

// drainUntilStopped stops the block manager while still receiving events.
func (h *c03h) drainUntilStopped() {
	tk := verifbubble.Go("Stop", func() (any, error) { return nil, h.bm.Stop() })
	for i := 0; i < 200 && !tk.Done(); i++ {
		verifbubble.Wait()
		if h.pending != nil {
			q := h.pending
			h.pending = nil
			close(q.done)
		}
		// Nobody reads the notification channel any more: in the client
		// the subscription manager is stopped before the block manager.
		time.Sleep(50 * time.Millisecond)
	}
	if !tk.Done() {
		h.c.Fail("stop", "blockmanager-stop-blocks", "blockManager.Stop has not returned after 10 virtual seconds with all queries released and nobody reading the notification channel (as after SubscriptionManager.Stop)")
	}
}

func runC03(t *testing.T, harness, oracle string) {
	tier := verifeng.Tier()
	depth, npeers := 6, 2
	if tier == "thorough" {
		depth, npeers = 8, 3
	}
	if oracle == "C19" {
		// subscriber registrations add two stimuli to every menu
		depth--
	}
	if rp := os.Getenv("VFX_REPLAY"); rp != "" {
		v, err := verifeng.LoadReplay(rp)
		if err != nil {
			t.Fatal(err)
		}
		fmt.Sscanf(v.Config, "depth=%d peers=%d", &depth, &npeers)
		vfxInBurst = strings.Contains(v.Config, "in-burst")
		e := verifeng.FromEnv(v.Harness, v.Config)
		_, x, err := e.ReplayFile(rp, c03Body(t, depth, npeers, oracle))
		if err != nil {
			t.Fatal(err)
		}
		if x.Viol != nil {
			fmt.Printf("REPLAY-VIOLATION clause=%s sig=%s\n%s\n", x.Viol.Clause, x.Viol.Sig, x.Viol.Detail)
		} else {
			fmt.Println("REPLAY-OK no violation")
		}
		return
	}
	e := verifeng.FromEnv(harness, fmt.Sprintf("depth=%d peers=%d trunk=%d", depth, npeers, c03TrunkLen))
	e.ShardDepth = 3
	e.MaxViol = 12
	if os.Getenv("VFX_AUDITALL") != "" {
		e.AuditEvery = 1
	}
	e.Run(c03Body(t, depth, npeers, oracle))
	if err := verifeng.AppendResult(&e.Res); err != nil {
		t.Fatal(err)
	}
	// second configuration: every history up to a smaller depth with at
	// most one in-burst deviation (scheduler delay / slow goroutine / select)
	vfxInBurst = true
	e = verifeng.FromEnv(harness, fmt.Sprintf("depth=%d peers=%d trunk=%d in-burst deviations<=1", depth-3, npeers, c03TrunkLen))
	e.ShardDepth = 3
	e.MaxViol = 12
	e.MaxDev = 1
	e.Run(c03Body(t, depth-3, npeers, oracle))
	vfxInBurst = false
	if err := verifeng.AppendResult(&e.Res); err != nil {
		t.Fatal(err)
	}
}

func TestVFXC03(t *testing.T) { runC03(t, "C03-filter-headers", "C03") }
func TestVFXC19(t *testing.T) { runC03(t, "C19-chain-events", "C19") }

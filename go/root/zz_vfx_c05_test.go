package neutrino

// C05 / C06 — a compact filter is returned only if it matches the committed
// filter header; a block is returned only if it is the requested, internally
// valid block. A partial ChainService (real header stores, real FilterCache /
// FilterDB / BlockCache / ban store, REAL query work manager and workers) in a
// synctest bubble; the peers are mock query.Peer endpoints whose every
// message is an explorer choice.

import (
	"bytes"
	"fmt"
	"os"
	"runtime"
	"sort"
	"strings"
	"testing"
	"time"

	"github.com/btcsuite/btcd/blockchain"
	"github.com/btcsuite/btcd/btcutil/v2"
	"github.com/btcsuite/btcd/btcutil/v2/gcs"
	"github.com/btcsuite/btcd/btcutil/v2/gcs/builder"
	"github.com/btcsuite/btcd/chaincfg/v2"
	"github.com/btcsuite/btcd/chainhash/v2"
	"github.com/btcsuite/btcd/wire/v2"
	"github.com/lightninglabs/neutrino/banman"
	"github.com/lightninglabs/neutrino/cache/lru"
	"github.com/lightninglabs/neutrino/chanutils"
	"github.com/lightninglabs/neutrino/filterdb"
	"github.com/lightninglabs/neutrino/headerfs"
	"github.com/lightninglabs/neutrino/internal/verifbubble"
	"github.com/lightninglabs/neutrino/internal/verifchain"
	"github.com/lightninglabs/neutrino/internal/verifeng"
	"github.com/lightninglabs/neutrino/internal/verifhfs"
	"github.com/lightninglabs/neutrino/internal/verifmemdb"
	"github.com/lightninglabs/neutrino/query"
)

const c05Len = 5

type c05fix struct {
	params *chaincfg.Params
	now    time.Time
	chain  []*verifchain.Node
	data   []*verifchain.BlockData // index = height (0: nil)
}

var c05fixture *c05fix

func getC05Fixture() *c05fix {
	if c05fixture != nil {
		return c05fixture
	}
	p := verifchain.Params(verifchain.Opt{Net: 0x0b11fefc})
	f := &c05fix{params: p}
	g := verifchain.Genesis(p)
	f.chain = []*verifchain.Node{g}
	f.data = []*verifchain.BlockData{nil}
	cur := g
	for i := 1; i <= c05Len; i++ {
		n, d := verifchain.MineSegwitBlock(p, cur, 10*time.Minute, 3, fmt.Sprintf("T%d", i))
		f.chain = append(f.chain, n)
		f.data = append(f.data, d)
		cur = n
	}
	f.now = cur.Hdr.Timestamp.Add(time.Hour)
	c05fixture = f
	return f
}

// ---- mock query peer

type vfxQPeer struct {
	name string
	addr string
	msgs chan wire.Message
	disc chan struct{}
	gone bool
	sent *[]vfxSent
}

type vfxSent struct {
	peer *vfxQPeer
	msg  wire.Message
	done bool // a valid answer was delivered: the job is over
}

func (p *vfxQPeer) QueueMessageWithEncoding(msg wire.Message, _ chan<- struct{}, _ wire.MessageEncoding) {
	*p.sent = append(*p.sent, vfxSent{peer: p, msg: msg})
}
func (p *vfxQPeer) SubscribeRecvMsg() (<-chan wire.Message, func()) { return p.msgs, func() {} }
func (p *vfxQPeer) Addr() string                                    { return p.addr }
func (p *vfxQPeer) OnDisconnect() <-chan struct{}                   { return p.disc }

type c05h struct {
	c        *verifeng.Chooser
	f        *c05fix
	cs       *ChainService
	fh       []chainhash.Hash // filter headers by height (ground truth)
	fhTip    int              // height up to which they are committed in the store
	peers    []*vfxQPeer
	sent     []vfxSent
	feed     chan query.Peer
	bandb    *verifmemdb.DB
	banStore banman.Store
	mode     string
}

// holder returns the peer the latest copy of an outstanding request went to.
func (h *c05h) outstanding() *vfxSent {
	// per request (the same message is re-sent on retries): only its latest
	// copy is live
	seen := map[wire.Message]bool{}
	for i := len(h.sent) - 1; i >= 0; i-- {
		s := &h.sent[i]
		if seen[s.msg] {
			continue
		}
		seen[s.msg] = true
		if !s.peer.gone && !s.done {
			return s
		}
	}
	return nil
}

func (h *c05h) verifyFilter(height int, flt *gcs.Filter) bool {
	got, err := builder.MakeHeaderForFilter(flt, h.fh[height-1])
	return err == nil && got == h.fh[height]
}

func c05Body(t *testing.T, mode string, depth int) func(c *verifeng.Chooser) {
	f := getC05Fixture()
	return func(c *verifeng.Chooser) {
		var env *verifhfs.Env
		out := verifbubble.Run(t, func() {
			env = verifhfs.NewEnv(c)
			env.Quiet = true
			env.MemFiles = true
			c05Run(c, f, env, mode, depth)
		})
		if env != nil {
			env.Cleanup()
		}
		switch {
		case out.Panic != nil:
			if ie, ok := out.Panic.(verifeng.InfraError); ok {
				panic(ie)
			}
			c.Fail("panic", "panic:"+firstWords(fmt.Sprint(out.Panic)), "%v", out.Panic)
		case out.Deadlock != "":
			c.Fail("stuck", "controller-deadlock", "%s", out.Deadlock)
		case out.Hang:
			c.Fail("hang", "hang", "the bubble never became quiescent")
		case out.Leak != "" && !c.Failed():
			c.Fail("leak", "goroutines-left", "%s", out.Leak)
		}
	}
}

func c05Run(c *verifeng.Chooser, f *c05fix, env *verifhfs.Env, mode string, depth int) {
	h := &c05h{c: c, f: f, mode: mode, feed: make(chan query.Peer)}
	bs, err := headerfs.NewBlockHeaderStore(env.Dir, env.DB, f.params)
	if err != nil {
		panic(verifeng.InfraError{Msg: "setup: " + err.Error()})
	}
	fs, err := headerfs.NewFilterHeaderStore(env.Dir, env.DB, headerfs.RegularFilter, f.params, nil)
	if err != nil {
		panic(verifeng.InfraError{Msg: "setup: " + err.Error()})
	}
	gfh, _, _ := fs.ChainTip()
	h.fh = []chainhash.Hash{*gfh}
	for i := 1; i <= c05Len; i++ {
		hd := f.chain[i].Hdr
		if err := bs.WriteHeaders(headerfs.BlockHeader{BlockHeader: &hd, Height: uint32(i)}); err != nil {
			panic(verifeng.InfraError{Msg: "setup: " + err.Error()})
		}
		h.fh = append(h.fh, verifchain.NextFilterHeader(f.data[i].FilterHash, h.fh[i-1]))
	}
	writeFilterHeaders := func(upTo int) {
		for i := 1; i <= upTo; i++ {
			if err := fs.WriteHeaders(headerfs.FilterHeader{HeaderHash: f.chain[i].Hash, FilterHash: h.fh[i], Height: uint32(i)}); err != nil {
				panic(verifeng.InfraError{Msg: "setup: " + err.Error()})
			}
		}
	}
	fdb, err := filterdb.New(env.DB, *f.params)
	if err != nil {
		panic(verifeng.InfraError{Msg: "setup: " + err.Error()})
	}
	h.bandb = verifmemdb.New()
	h.banStore, err = banman.NewStore(h.bandb)
	if err != nil {
		panic(verifeng.InfraError{Msg: "setup: " + err.Error()})
	}

	// ---- scenario
	target := []int{1, 3, 5}[c.ChooseFree(3, "target-height")]
	var opts []QueryOption
	persist := false
	reverseBatch := false
	cacheCap := uint64(1 << 20)
	if mode == "C05" {
		switch c.ChooseFree(3, "batching") {
		case 1:
			opts = append(opts, OptimisticBatch())
		case 2:
			opts = append(opts, OptimisticReverseBatch())
			reverseBatch = true
		}
		if c.ChooseFree(2, "max-batch") == 1 {
			opts = append(opts, MaxBatchSize(2))
		}
		storage := c.ChooseFree(3, "storage") // 0: big cache, 1: + persist to disk, 2: one-filter cache
		persist = storage == 1
		if storage == 2 {
			// room for about one filter: forces evictions
			sz, _ := (&CacheableFilter{Filter: f.data[1].Filter}).Size()
			cacheCap = sz + sz/2
		}
	}
	// the filter headers may lag one block behind the block headers; the
	// target is then a block without a committed filter header, for which
	// nothing may be returned. (Only with the reverse batch: without it the
	// unchanged code computes an underflowing range for such a block and
	// allocates 4 GiB before failing - DESIGN 6.2, outside the properties.)
	fhTip := c05Len
	if mode == "C05" && target == c05Len && len(opts) > 0 && c.ChooseFree(2, "filter-headers-lag") == 1 {
		fhTip = c05Len - 1
	}
	if fhTip < c05Len && !reverseBatch {
		fhTip = c05Len
	}
	h.fhTip = fhTip
	writeFilterHeaders(fhTip)
	if mode == "C06" && c.ChooseFree(2, "encoding") == 1 {
		opts = append(opts, Encoding(wire.BaseEncoding))
	}
	// the client's (network-adjusted) clock may have moved back since the
	// header was accepted: the requested block's timestamp is then more than
	// two hours ahead of it. Whatever the client makes of that, it must not
	// return or cache a block that fails the statement's checks.
	clock := f.now
	clockBehind := false
	if mode == "C06" && c.ChooseFree(2, "clock") == 1 {
		clockBehind = true
		clock = f.chain[target].Hdr.Timestamp.Add(-3 * time.Hour)
	}
	cs := &ChainService{
		BlockHeaders:     bs,
		RegFilterHeaders: fs,
		FilterDB:         fdb,
		FilterCache:      lru.NewCache[FilterCacheKey, *CacheableFilter](cacheCap),
		BlockCache:       lru.NewCache[wire.InvVect, *CacheableBlock](1 << 22),
		chainParams:      *f.params,
		timeSource:       vfxTime{clock},
		quit:             make(chan struct{}),
		query:            make(chan interface{}),
		banStore:         h.banStore,
		persistToDisk:    persist,
	}
	h.cs = cs
	cs.workManager = query.NewWorkManager(&query.Config{
		ConnectedPeers: func() (<-chan query.Peer, func(), error) { return h.feed, func() {}, nil },
		NewWorker:      query.NewWorker,
		Ranking:        query.NewPeerRanking(),
	})
	if persist {
		cs.filterBatchWriter = chanutils.NewBatchWriter[*filterdb.FilterData](
			&chanutils.BatchWriterConfig[*filterdb.FilterData]{
				QueueBufferSize:        chanutils.DefaultQueueSize,
				MaxBatch:               10,
				DBWritesTickerDuration: 500 * time.Millisecond,
				PutItems:               fdb.PutFilters,
			})
		cs.filterBatchWriter.Start()
	}
	// the part of peerHandler BanPeer needs: answer "which peers are connected"
	stopStub := make(chan struct{})
	go func() {
		for {
			select {
			case m := <-cs.query:
				if g, ok := m.(getPeersMsg); ok {
					g.reply <- nil
				}
			case <-stopStub:
				return
			}
		}
	}()
	if err := cs.workManager.Start(); err != nil {
		panic(verifeng.InfraError{Msg: err.Error()})
	}
	for i := 0; i < 2; i++ {
		p := &vfxQPeer{name: string(rune('A' + i)), addr: fmt.Sprintf("10.0.0.%d:18444", i+1),
			msgs: make(chan wire.Message), disc: make(chan struct{}), sent: &h.sent}
		h.peers = append(h.peers, p)
		tk := verifbubble.Go("connect", func() (any, error) { h.feed <- p; return nil, nil })
		verifbubble.Wait()
		if !tk.Done() {
			panic(verifeng.InfraError{Msg: "work manager does not take the peer"})
		}
	}
	defer func() {
		close(stopStub)
		close(cs.quit)
		cs.workManager.Stop()
		if persist {
			cs.filterBatchWriter.Stop()
		}
		verifbubble.Wait()
	}()

	// ---- the caller(s)
	call := func(height int) *verifbubble.Task {
		hash := f.chain[height].Hash
		return verifbubble.Go(fmt.Sprintf("call(T%d)", height), func() (any, error) {
			var r c05Res
			if mode == "C05" {
				r.flt, r.err = cs.GetCFilter(hash, wire.GCSFilterRegular, opts...)
			} else {
				r.blk, r.err = cs.GetBlock(hash, opts...)
			}
			return &r, nil
		})
	}
	type caller struct {
		tk     *verifbubble.Task
		height int
	}
	callers := []*caller{{call(target), target}}
	servedOK := map[int]bool{} // heights for which a valid response reached the job's holder
	invalidFrom := map[string]bool{}
	secondCall := false
	advances := 0
	sentCount := map[string]int{}

	deliver := func(p *vfxQPeer, m wire.Message) bool {
		tk := verifbubble.Go("deliver", func() (any, error) { p.msgs <- m; return nil, nil })
		verifbubble.Wait()
		if !tk.Done() {
			c.Fail("stuck", "worker-not-reading", "peer %s's worker does not take a message although every goroutine is idle", p.name)
			return false
		}
		return true
	}

	for d := 0; d < depth && !c.Failed(); d++ {
		verifbubble.Wait()
		if sig, detail := verifbubble.LockOrder(); sig != "" {
			c.Fail(mode, "lock-order-inversion:"+sig, "%s", detail)
			return
		}
		type ev struct {
			name string
			run  func() bool
		}
		var menu []ev
		if o := h.outstanding(); o != nil {
			p := o.peer
			add := func(key, name string, m wire.Message, valid bool, height int, invalid bool) {
				if sentCount[key] >= 2 {
					return
				}
				menu = append(menu, ev{p.name + " sends " + name, func() bool {
					sentCount[key]++
					if valid {
						servedOK[height] = true
					}
					if invalid {
						invalidFrom[p.addr] = true
					}
					return deliver(p, m)
				}})
			}
			switch req := o.msg.(type) {
			case *wire.MsgGetCFilters:
				for i := 1; i <= c05Len; i++ {
					data, _ := f.data[i].Filter.NBytes()
					add(fmt.Sprintf("ok%d", i), fmt.Sprintf("cfilter(T%d, correct)", i),
						wire.NewMsgCFilter(wire.GCSFilterRegular, &f.chain[i].Hash, data), true, i, false)
				}
				tgt := int(req.StartHeight)
				data, _ := f.data[tgt].Filter.NBytes()
				other, _ := f.data[tgt%c05Len+1].Filter.NBytes()
				add("type", fmt.Sprintf("cfilter(T%d, wrong filter type)", tgt),
					wire.NewMsgCFilter(wire.FilterType(7), &f.chain[tgt].Hash, data), false, 0, false)
				add("junk", fmt.Sprintf("cfilter(T%d, undecodable bytes)", tgt),
					wire.NewMsgCFilter(wire.GCSFilterRegular, &f.chain[tgt].Hash, []byte{0xff, 0xff, 0xff, 0xff, 0x01}), false, 0, false)
				add("wrong", fmt.Sprintf("cfilter(T%d, the filter of another block)", tgt),
					wire.NewMsgCFilter(wire.GCSFilterRegular, &f.chain[tgt].Hash, other), false, 0, false)
				bdata, _ := f.data[tgt].BadFilter.NBytes()
				add("bad", fmt.Sprintf("cfilter(T%d, filter omitting a script)", tgt),
					wire.NewMsgCFilter(wire.GCSFilterRegular, &f.chain[tgt].Hash, bdata), false, 0, false)
			case *wire.MsgGetData:
				var want int
				for i := 1; i <= c05Len; i++ {
					if f.chain[i].Hash == req.InvList[0].Hash {
						want = i
					}
				}
				if sentCount["ok"] < 2 {
					menu = append(menu, ev{p.name + fmt.Sprintf(" sends block(T%d, intact)", want), func() bool {
						sentCount["ok"]++
						servedOK[want] = true
						o.done = true
						return deliver(p, f.data[want].Block)
					}})
				}
				if os.Getenv("VFX_LENIENT") != "" && sentCount["ok+readers"] < 1 {
					// race-detector pass only (C18): the intact block
					// arrives while other consumers ask for the same block
					// and look at it (as a rescan and a GetUtxo scan do),
					// with no quiescent point in between
					menu = append(menu, ev{p.name + fmt.Sprintf(" sends block(T%d, intact) while three more consumers ask for T%d and read what they get", want, want), func() bool {
						sentCount["ok+readers"]++
						servedOK[want] = true
						o.done = true
						hash := f.chain[want].Hash
						blk := f.data[want].Block
						go func() { p.msgs <- blk }()
						for _, yields := range []int{0, 20, 200} {
							yields := yields
							go func() {
								for i := 0; i < yields; i++ {
									runtime.Gosched()
								}
								if b, err := cs.GetBlock(hash, opts...); err == nil && b != nil {
									_ = b.Height()
								}
							}()
						}
						return true
					}})
				}
				add("other", fmt.Sprintf("block(T%d, a different valid block)", want%c05Len+1), f.data[want%c05Len+1].Block, false, 0, false)
				// "I don't have it": no block at all. Like every response
				// that is not the requested block it has to be ignored
				// (the request stays with the peer until its timeout and
				// is then retried); it must not end the call.
				if sentCount["notfound"] < 1 && !callers[0].tk.Done() {
					nf := wire.NewMsgNotFound()
					_ = nf.AddInvVect(wire.NewInvVect(req.InvList[0].Type, &f.chain[want].Hash))
					menu = append(menu, ev{p.name + fmt.Sprintf(" sends notfound(T%d)", want), func() bool {
						sentCount["notfound"]++
						if !deliver(p, nf) {
							return false
						}
						verifbubble.Wait()
						if callers[0].tk.Done() {
							r := callers[0].tk.Val.(*c05Res)
							c.Fail("C06", "C06:call-ended-by-a-response-to-ignore",
								"GetBlock(T%d) returned (err=%v) as soon as peer %s answered notfound: a response that is not the requested block has to be ignored and the request retried with other peers", want, r.err, p.name)
							return false
						}
						return true
					}})
				}
				for _, mut := range []string{"mutated-tx", "added-tx", "removed-tx", "replaced-txs", "stripped-witness", "forged-commitment"} {
					add(mut, fmt.Sprintf("block(T%d header, %s)", want, mut), mutateBlock(f.data[want].Block, mut), false, 0, true)
				}
			}
			menu = append(menu, ev{"disconnect(" + p.name + ")", func() bool {
				p.gone = true
				close(p.disc)
				return true
			}})
		}
		if advances < 4 {
			menu = append(menu, ev{"advance 2s", func() bool { advances++; time.Sleep(2 * time.Second); return true }})
		}
		// A second call while the first is in flight would wait on the
		// single-flight mutex, which the bubble cannot see as blocked; it
		// is issued once the first call has returned (cache / database /
		// re-fetch paths).
		// (GetBlock has no such mutex: there the second call may overlap
		// the first.)
		if !secondCall && (callers[0].tk.Done() || mode == "C06") {
			for _, ht := range []int{target, target%c05Len + 1} {
				ht := ht
				menu = append(menu, ev{fmt.Sprintf("second caller asks for T%d", ht), func() bool {
					secondCall = true
					callers = append(callers, &caller{call(ht), ht})
					return true
				}})
			}
		}
		if len(menu) == 0 {
			break
		}
		e := menu[c.ChooseFree(len(menu), "event")]
		c.Step("%s", e.name)
		if !e.run() {
			return
		}
		verifbubble.Wait()
		if h.judge(callers[0].tk, callers[0].height, servedOK, false) {
			return
		}
	}
	if c.Failed() {
		return
	}
	// ---- chatty holder: the peer that holds the request keeps sending
	// messages that are no answer and no progress (a block nobody asked for /
	// a filter of the wrong type), one a second, for longer than the
	// request's timeout can be by now; the request must be taken away from
	// it ("any other response is ignored, the request is retried with other
	// peers") - re-sent to a peer, or the call has ended.
	if o := h.outstanding(); o != nil && !callers[0].tk.Done() && os.Getenv("VFX_LENIENT") == "" {
		copies := func() int {
			n := 0
			for i := range h.sent {
				if h.sent[i].msg == o.msg {
					n++
				}
			}
			return n
		}
		before := copies()
		rounds := 2<<advances + 2
		var noise wire.Message
		switch req := o.msg.(type) {
		case *wire.MsgGetData:
			for i := 1; i <= c05Len; i++ {
				if f.chain[i].Hash == req.InvList[0].Hash {
					noise = f.data[i%c05Len+1].Block
				}
			}
		case *wire.MsgGetCFilters:
			tgt := int(req.StartHeight)
			data, _ := f.data[tgt].Filter.NBytes()
			noise = wire.NewMsgCFilter(wire.FilterType(7), &f.chain[tgt].Hash, data)
		}
		p := o.peer
		for r := 0; noise != nil && r < rounds && !c.Failed(); r++ {
			if copies() > before || callers[0].tk.Done() || p.gone {
				break
			}
			tk := verifbubble.Go("noise", func() (any, error) {
				select {
				case p.msgs <- noise:
				case <-time.After(time.Millisecond):
				}
				return nil, nil
			})
			verifbubble.Wait()
			_ = tk
			time.Sleep(time.Second)
			verifbubble.Wait()
		}
		if noise != nil && copies() == before && !callers[0].tk.Done() && !p.gone {
			c.Fail(mode, mode+":request-kept-alive-by-unrelated-responses",
				"peer %s held the request for %d s in which it only sent messages that are no answer to it; the request was neither re-sent to any peer nor did the call end", p.name, rounds)
			return
		}
	}
	// ---- wind down: let every job time out / fail, callers must return.
	// Without any connected peer a batch is only ended by shutdown (the
	// dispatcher checks the hard timeout when a result arrives), so the
	// client is shut down in that case.
	connected := 0
	for _, p := range h.peers {
		if !p.gone {
			connected++
		}
	}
	if connected == 0 {
		close(cs.quit)
		cs.quit = make(chan struct{}) // the deferred clean-up closes this one
	}
	for i := 0; i < 40; i++ {
		verifbubble.Wait()
		all := true
		for _, cl := range callers {
			all = all && cl.tk.Done()
		}
		if all {
			break
		}
		time.Sleep(4 * time.Second)
	}
	verifbubble.Wait()
	var obs []string
	for _, cl := range callers {
		if !cl.tk.Done() {
			c.Fail("blocked", "caller-never-returns", "%s has not returned after every request timed out repeatedly (160 virtual seconds)", cl.tk.Name)
			return
		}
		if h.judge(cl.tk, cl.height, servedOK, true) {
			return
		}
		r := cl.tk.Val.(*c05Res)
		obs = append(obs, fmt.Sprintf("T%d:%v", cl.height, r.err == nil))
	}
	if mode == "C06" {
		for addr := range invalidFrom {
			if !h.isBanned(addr) {
				c.Fail("C06", "C06:sender-of-invalid-block-not-banned", "peer %s sent a block carrying the requested header that fails validation, but is not banned", addr)
				return
			}
		}
		for _, p := range h.peers {
			if clockBehind {
				// with the block's timestamp out of bounds the client
				// may reject (and ban for) the intact block too; the
				// statement does not speak about that
				break
			}
			if !invalidFrom[p.addr] && h.isBanned(p.addr) {
				c.Fail("C06", "C06:innocent-peer-banned", "peer %s never sent an invalid block for the request but is banned", p.addr)
				return
			}
		}
	}
	if persist {
		time.Sleep(time.Second) // the batch writer's ticker
		verifbubble.Wait()
	}
	if h.checkCaches() {
		return
	}
	sort.Strings(obs)
	c.Obs(strings.Join(obs, ","))
}

func (h *c05h) isBanned(addr string) bool {
	n, err := banman.ParseIPNet(addr, nil)
	if err != nil {
		return false
	}
	st, err := h.banStore.Status(n)
	return err == nil && st.Banned
}

// judge checks a finished call's return value.
func (h *c05h) judge(tk *verifbubble.Task, height int, servedOK map[int]bool, final bool) bool {
	if !tk.Done() {
		return false
	}
	return h.judgeVal(tk, height, servedOK, h.c, h.f)
}

func (h *c05h) judgeVal(tk *verifbubble.Task, height int, servedOK map[int]bool, c *verifeng.Chooser, f *c05fix) bool {
	flt, blk, err := c05Unpack(tk.Val)
	if err != nil {
		return false
	}
	if h.mode == "C05" {
		if flt == nil {
			return c.Fail("C05", "C05:nil-filter-without-error", "GetCFilter(T%d) returned neither a filter nor an error", height)
		}
		if height > h.fhTip {
			return c.Fail("C05", "C05:filter-returned-without-committed-header", "GetCFilter(T%d) returned a filter although no filter header is committed for that block (filter header tip %d)", height, h.fhTip)
		}
		if !h.verifyFilter(height, flt) {
			kind := "unverified-filter-returned"
			if !servedOK[height] {
				kind = "filter-returned-but-never-validly-served"
			}
			return c.Fail("C05", "C05:"+kind, "GetCFilter(T%d) returned a filter that does not hash, with the committed filter header of T%d, to the committed filter header of T%d", height, height-1, height)
		}
		if !servedOK[height] {
			// the bytes are right, but no response that may be accepted
			// ever carried them: they were taken from one of the responses
			// the statement says are never returned (another filter type,
			// another block, unsolicited, ...)
			return c.Fail("C05", "C05:filter-taken-from-a-response-to-reject", "GetCFilter(T%d) returned a filter although no acceptable response for that block was ever delivered: it was taken from a response that has to be rejected (wrong filter type / block / unsolicited)", height)
		}
		return false
	}
	if blk == nil {
		return c.Fail("C06", "C06:nil-block-without-error", "GetBlock(T%d) returned neither a block nor an error", height)
	}
	var got, want bytes.Buffer
	_ = blk.MsgBlock().Serialize(&got)
	_ = f.data[height].Block.Serialize(&want)
	if blk.MsgBlock().BlockHash() != f.chain[height].Hash {
		return c.Fail("C06", "C06:wrong-block-returned", "GetBlock(T%d) returned a block with another header hash", height)
	}
	root := blockchain.CalcMerkleRoot(blk.Transactions(), false)
	if root != blk.MsgBlock().Header.MerkleRoot {
		return c.Fail("C06", "C06:merkle-root-mismatch", "GetBlock(T%d) returned a block whose transactions do not reproduce the header's merkle root", height)
	}
	if err := blockchain.ValidateWitnessCommitment(blk); err != nil {
		return c.Fail("C06", "C06:invalid-witness-commitment", "GetBlock(T%d) returned a block with an invalid witness commitment: %v", height, err)
	}
	if !bytes.Equal(got.Bytes(), want.Bytes()) {
		return c.Fail("C06", "C06:altered-block-returned", "GetBlock(T%d) returned a block that differs from the real one", height)
	}
	return false
}

func c05Unpack(v any) (*gcs.Filter, *btcutil.Block, error) {
	r := v.(*c05Res)
	return r.flt, r.blk, r.err
}

type c05Res struct {
	flt *gcs.Filter
	blk *btcutil.Block
	err error
}

// checkCaches verifies every cached / persisted filter and cached block.
func (h *c05h) checkCaches() bool {
	c, f := h.c, h.f
	bad := false
	h.cs.FilterCache.Range(func(k FilterCacheKey, v *CacheableFilter) bool {
		ht := 0
		for i := 1; i <= c05Len; i++ {
			if f.chain[i].Hash == k.BlockHash {
				ht = i
			}
		}
		if ht == 0 || !h.verifyFilter(ht, v.Filter) {
			bad = c.Fail("C05", "C05:unverified-filter-cached", "the filter cache holds a filter for %v that does not match the committed filter header", k.BlockHash)
			return false
		}
		return true
	})
	if bad {
		return true
	}
	for i := 1; i <= c05Len; i++ {
		flt, err := h.cs.FilterDB.FetchFilter(&f.chain[i].Hash, filterdb.RegularFilter)
		if err == nil && flt != nil && !h.verifyFilter(i, flt) {
			return c.Fail("C05", "C05:unverified-filter-persisted", "the filter database holds a filter for T%d that does not match the committed filter header", i)
		}
	}
	h.cs.BlockCache.Range(func(k wire.InvVect, v *CacheableBlock) bool {
		ht := 0
		for i := 1; i <= c05Len; i++ {
			if f.chain[i].Hash == k.Hash {
				ht = i
			}
		}
		var got, want bytes.Buffer
		if ht != 0 {
			_ = v.Block.MsgBlock().Serialize(&got)
			_ = f.data[ht].Block.Serialize(&want)
		}
		if ht == 0 || !bytes.Equal(got.Bytes(), want.Bytes()) {
			bad = c.Fail("C06", "C06:invalid-block-cached", "the block cache holds an altered block under %v", k.Hash)
			return false
		}
		return true
	})
	return bad
}

// mutateBlock returns a copy of b that keeps its header but fails a check.
func mutateBlock(b *wire.MsgBlock, how string) *wire.MsgBlock {
	var buf bytes.Buffer
	_ = b.Serialize(&buf)
	var m wire.MsgBlock
	_ = m.Deserialize(bytes.NewReader(buf.Bytes()))
	switch how {
	case "mutated-tx":
		m.Transactions[1].TxOut[0].Value++
	case "added-tx":
		extra := m.Transactions[1].Copy()
		extra.TxIn[0].PreviousOutPoint.Index = 9
		m.Transactions = append(m.Transactions, extra)
	case "removed-tx":
		m.Transactions = m.Transactions[:1]
	case "stripped-witness":
		for _, tx := range m.Transactions {
			for _, in := range tx.TxIn {
				in.Witness = nil
			}
		}
	case "replaced-txs":
		// the requested header over a transaction list without any
		// witness data or commitment (nothing for the commitment check to
		// object to): only the merkle root tells
		cb := wire.NewMsgTx(1)
		cb.AddTxIn(&wire.TxIn{PreviousOutPoint: wire.OutPoint{Index: 0xffffffff}, SignatureScript: []byte{0x01, 0x07, 0x51}, Sequence: 0xffffffff})
		cb.AddTxOut(wire.NewTxOut(50, []byte{0x51}))
		plain := wire.NewMsgTx(1)
		plain.AddTxIn(&wire.TxIn{PreviousOutPoint: wire.OutPoint{Hash: chainhash.Hash{1, 2, 3}, Index: 0}, SignatureScript: []byte{0x51}, Sequence: 0xffffffff})
		plain.AddTxOut(wire.NewTxOut(7, []byte{0x51}))
		m.Transactions = []*wire.MsgTx{cb, plain}
	case "forged-commitment":
		// a different witness for the spend: txids (and the merkle root)
		// stay the same, the commitment no longer matches
		m.Transactions[1].TxIn[0].Witness[0] = []byte{0x30, 0x02, 0x99}
	}
	return &m
}

func runC05(t *testing.T, mode, harness string) {
	tier := verifeng.Tier()
	depth := 4
	if tier == "thorough" {
		depth = 6
	}
	if rp := os.Getenv("VFX_REPLAY"); rp != "" {
		v, err := verifeng.LoadReplay(rp)
		if err != nil {
			t.Fatal(err)
		}
		fmt.Sscanf(v.Config, "depth=%d", &depth)
		e := verifeng.FromEnv(v.Harness, v.Config)
		_, x, err := e.ReplayFile(rp, c05Body(t, mode, depth))
		if err != nil {
			t.Fatal(err)
		}
		if x.Viol != nil {
			fmt.Printf("REPLAY-VIOLATION clause=%s sig=%s\n%s\n", x.Viol.Clause, x.Viol.Sig, x.Viol.Detail)
		} else {
			fmt.Println("REPLAY-OK no violation")
		}
		return
	}
	e := verifeng.FromEnv(harness, fmt.Sprintf("depth=%d chain=%d peers=2", depth, c05Len))
	e.ShardDepth = 3
	e.MaxViol = 12
	e.Run(c05Body(t, mode, depth))
	if err := verifeng.AppendResult(&e.Res); err != nil {
		t.Fatal(err)
	}
}

func TestVFXC05(t *testing.T) { runC05(t, "C05", "C05-getcfilter") }
func TestVFXC06(t *testing.T) { runC05(t, "C06", "C06-getblock") }

package neutrino

// E5 — full-node simulation. A real ChainService (NewChainService / Start /
// Stop: connection manager, address manager, real btcd peers, block manager,
// work manager, subscription manager, UTXO scanner, broadcaster) runs in a
// synctest bubble against simulated remote nodes that speak the wire protocol
// over net.Pipe. The harness owns every source of nondeterminism: which
// pending dial is accepted next, which pending request of which remote is
// answered next (each remote answers according to its behaviour), when the
// honest side's chain grows or reorganises, when remotes drop the connection,
// when virtual time advances, and when API calls and Stop happen. One stimulus
// per quiescent point. The explorer enumerates every departure from the
// default schedule (lowest peer first, FIFO, environment events only once the
// node is idle) up to a deviation bound.

import (
	"bytes"
	"context"
	"errors"
	"fmt"
	"io"
	"net"
	"os"
	"reflect"
	"sort"
	"strings"
	"sync"
	"testing"
	"time"

	"github.com/btcsuite/btcd/btcutil/v2"
	"github.com/btcsuite/btcd/btcutil/v2/gcs"
	"github.com/btcsuite/btcd/btcutil/v2/gcs/builder"
	"github.com/btcsuite/btcd/chaincfg/v2"
	"github.com/btcsuite/btcd/chainhash/v2"
	"github.com/btcsuite/btcd/rpcclient"
	"github.com/btcsuite/btcd/wire/v2"
	"github.com/btcsuite/btclog"
	"github.com/lightninglabs/neutrino/banman"
	"github.com/lightninglabs/neutrino/blockntfns"
	"github.com/lightninglabs/neutrino/headerfs"
	"github.com/lightninglabs/neutrino/internal/verifbubble"
	"github.com/lightninglabs/neutrino/internal/verifdetrt"
	"github.com/lightninglabs/neutrino/internal/verifchain"
	"github.com/lightninglabs/neutrino/internal/verifeng"
	"github.com/lightninglabs/neutrino/internal/verifhfs"
)

// vfxChanMutex replaces ChainService.mtxCFilter in the node harnesses' builds
// (source rewrite in the build overlay): blocking on a channel is visible to
// the bubble, blocking on a sync.Mutex is not.
type vfxChanMutex struct {
	once sync.Once
	ch   chan struct{}
}

func (m *vfxChanMutex) Lock() {
	m.once.Do(func() { m.ch = make(chan struct{}, 1) })
	m.ch <- struct{}{}
}

func (m *vfxChanMutex) Unlock() { <-m.ch }

// cfMutexVisible reports whether the rewrite took place.
func cfMutexVisible() bool {
	t, _ := reflect.TypeOf(ChainService{}).FieldByName("mtxCFilter")
	return t.Type == reflect.TypeOf(vfxChanMutex{})
}

// bufStream is one direction of a buffered in-memory connection: unlike
// net.Pipe, a Write returns at once and a Read takes what is there without the
// writer's goroutine having to run (as with a socket buffer). Used for remotes
// whose point is what the client does with several messages that are already
// there.
type bufStream struct {
	mu     sync.Mutex
	buf    []byte
	closed bool
	notify chan struct{}
}

func newBufStream() *bufStream { return &bufStream{notify: make(chan struct{}, 1)} }

func (b *bufStream) write(p []byte) (int, error) {
	b.mu.Lock()
	if b.closed {
		b.mu.Unlock()
		return 0, io.ErrClosedPipe
	}
	b.buf = append(b.buf, p...)
	b.mu.Unlock()
	select {
	case b.notify <- struct{}{}:
	default:
	}
	return len(p), nil
}

func (b *bufStream) read(p []byte) (int, error) {
	for {
		b.mu.Lock()
		if len(b.buf) > 0 {
			n := copy(p, b.buf)
			b.buf = b.buf[n:]
			b.mu.Unlock()
			return n, nil
		}
		closed := b.closed
		b.mu.Unlock()
		if closed {
			return 0, io.EOF
		}
		<-b.notify
	}
}

func (b *bufStream) close() {
	b.mu.Lock()
	b.closed = true
	b.mu.Unlock()
	select {
	case b.notify <- struct{}{}:
	default:
	}
}

type bufConn struct {
	rd, wr *bufStream
	addr   net.Addr
}

func newBufConnPair() (*bufConn, *bufConn) {
	a, b := newBufStream(), newBufStream()
	ad := &net.TCPAddr{IP: net.ParseIP("10.9.9.9"), Port: 1}
	return &bufConn{rd: a, wr: b, addr: ad}, &bufConn{rd: b, wr: a, addr: ad}
}

func (c *bufConn) Read(p []byte) (int, error)  { return c.rd.read(p) }
func (c *bufConn) Write(p []byte) (int, error) { return c.wr.write(p) }
func (c *bufConn) Close() error {
	// what was written before the close is still delivered
	c.wr.close()
	c.rd.close()
	return nil
}
func (c *bufConn) LocalAddr() net.Addr              { return c.addr }
func (c *bufConn) RemoteAddr() net.Addr             { return c.addr }
func (c *bufConn) SetDeadline(time.Time) error      { return nil }
func (c *bufConn) SetReadDeadline(time.Time) error  { return nil }
func (c *bufConn) SetWriteDeadline(time.Time) error { return nil }

// ---- fixture

type nodeFix struct {
	params *chaincfg.Params
	now    time.Time
	trunk  []*verifchain.Node // trunk[i] has height i
	// fork[i] has height forkFrom+1+i; the parent of fork[0] is trunk[forkFrom]
	fork     []*verifchain.Node
	forkFrom int32
	start    int32                               // the honest chain at the start: trunk[0..start]
	bad      map[chainhash.Hash]*verifchain.Node // an invalid child for trunk nodes from start on
	data     map[chainhash.Hash]*verifchain.BlockData
	byHash   map[chainhash.Hash]*verifchain.Node
	fh       map[chainhash.Hash]chainhash.Hash // true filter headers (filled lazily)
	// filter hash of the genesis block's (empty) basic filter
	genFilterHash chainhash.Hash
}

const nodeForkLen = 6 // the last fork block is reserved for the final growth

var nodeFixtures = map[string]*nodeFix{}

// getNodeFixture builds the short block tree (trunk T1..T5, start T3, fork
// B2..B7 from T1) or the long one (trunk of 2005 blocks, start 2002, fork of 6
// from 2000), which reaches filter checkpoints (every 1000 blocks).
func getNodeFixture(long, gap bool) *nodeFix {
	key := "short"
	trunkLen, start, forkFrom := int32(5), int32(3), int32(1)
	if long {
		key = "long"
		trunkLen, start, forkFrom = 2005, 2002, 2000
	}
	if long && gap {
		// block 2001 comes ten days after block 2000: a client that has the
		// first 2000 headers (one headers message) is not current yet, so
		// the checkpointed filter header sync runs while the block headers
		// are still behind - the state of a real initial sync
		key = "long-gap"
		// ... and the honest chain has just these 2000 blocks at the start
		start = 2000
	}
	if f := nodeFixtures[key]; f != nil {
		return f
	}
	p := verifchain.Params(verifchain.Opt{})
	f := &nodeFix{params: p, data: map[chainhash.Hash]*verifchain.BlockData{}, byHash: map[chainhash.Hash]*verifchain.Node{},
		bad: map[chainhash.Hash]*verifchain.Node{}, fh: map[chainhash.Hash]chainhash.Hash{}, start: start, forkFrom: forkFrom}
	g := verifchain.Genesis(p)
	f.byHash[g.Hash] = g
	f.trunk = []*verifchain.Node{g}
	cur := g
	for i := int32(1); i <= trunkLen; i++ {
		// the first block comes two days after genesis: a client that
		// only has the genesis block is not current (24-hour rule)
		spacing := 10 * time.Minute
		if i == 1 {
			spacing = 48 * time.Hour
		}
		if key == "long-gap" && i == 2001 {
			spacing = 240 * time.Hour
		}
		n, d := verifchain.MineBlock(p, cur, spacing, 1, fmt.Sprintf("T%d", i))
		f.trunk = append(f.trunk, n)
		f.data[n.Hash], f.byHash[n.Hash] = d, n
		cur = n
	}
	cur = f.trunk[forkFrom]
	for i := 0; i < nodeForkLen; i++ {
		n, d := verifchain.MineBlock(p, cur, 9*time.Minute, 2, fmt.Sprintf("B%d", cur.Height+1))
		f.fork = append(f.fork, n)
		f.data[n.Hash], f.byHash[n.Hash] = d, n
		cur = n
	}
	for i := start; i <= trunkLen; i++ {
		parent := f.trunk[i]
		ts := parent.Hdr.Timestamp.Add(10 * time.Minute)
		x := verifchain.MineAt(p, parent, ts, verifchain.RequiredBits(p, parent, ts), 7, fmt.Sprintf("X%d", i+1), false)
		x.Invalid = "pow"
		f.bad[parent.Hash] = x
		f.byHash[x.Hash] = x
	}
	gf, err := builder.BuildBasicFilter(p.GenesisBlock, nil)
	if err != nil {
		panic(err)
	}
	if f.genFilterHash, err = builder.GetFilterHash(gf); err != nil {
		panic(err)
	}
	f.now = f.trunk[trunkLen].Hdr.Timestamp.Add(time.Hour)
	nodeFixtures[key] = f
	return f
}

func (f *nodeFix) label(h chainhash.Hash) string {
	if n, ok := f.byHash[h]; ok {
		return n.Label
	}
	return "?" + h.String()[:6]
}

// ---- simulated remotes

var nodeBehaviours = []string{
	"honest",                // a second honest node
	"silent",                // completes the handshake, then never answers
	"invalid-header",        // serves the honest chain followed by a header without proof of work
	"lighter-fork",          // serves only a shorter fork
	"false-cfheaders",       // lies about one filter header, serves the matching false filter
	"false-prev-header",     // lies about the previous filter header in cfheaders
	"garbage",               // answers every request with an unrelated message
	"drops-on-cf",           // closes the connection when asked for filter headers
	"bad-block",             // serves blocks whose transactions do not match the header
	"drops-after-handshake", // closes the connection right after its verack
	"garbage-after-verack",  // verack and a protocol violation in one write
	"no-cf-service",         // does not advertise compact filters
	"no-witness",            // does not advertise witness support
}

type nodeItem struct {
	req      wire.Message    // a request of the client awaiting this remote's answer
	announce *chainhash.Hash // or: a block announcement this remote wants to make
	// or: the remote is ready to send its verack (slow-handshake)
	handshake bool
	at        time.Time // (virtual) arrival time
}

type nodeConn struct {
	hsRelease chan struct{} // slow-handshake: closed when the verack may go out
	p         *nodePeer
	c         net.Conn
	mu        sync.Mutex
	queue     []nodeItem
	closed    bool
	ready     bool
	seq       int
}

type nodePeer struct {
	idx       int
	name      string
	addr      string
	behaviour string
	lieAt     int32
	conn      *nodeConn
	conns     int // connections accepted so far
	everReady bool
	// the version message of this remote reached the client
	versionSent bool
	// it answered a getdata of the client, in turn, with a corrupted block
	servedBadBlock bool
	// the user has banned its address (C13)
	userBanned bool
	// it dropped a connection (a deviation)
	dropped bool
	// C15: how it reacts to a transaction announcement before / after the
	// first block event, and the announcements it has received
	fh       map[chainhash.Hash]chainhash.Hash // a liar's own filter header chain
	txReply  [2]string
	txActual [2]string // what it has actually sent so far
	txInvs   int
}

type nodeDial struct {
	p    *nodePeer
	done chan net.Conn
}

type nodeH struct {
	c      *verifeng.Chooser
	f      *nodeFix
	env    *verifhfs.Env
	cs     *ChainService
	genFH  chainhash.Hash
	peers  []*nodePeer
	honest []*verifchain.Node // the honest side's best chain, index = height
	mu     sync.Mutex
	dials  []*nodeDial
	oracle string
	budget int
	// blocks whose filter header an honest remote has served so far
	honestCF map[chainhash.Hash]bool
	// an honest remote has answered a getcfcheckpt request
	honestCP bool
	// the honest remote H was the client's sync peer at some quiescent
	// point since the last chain event
	honestWasSyncPeer bool
	burst             *verifbubble.Burst // scheduler deviations inside a step (nil: none)
	// the first false filter header seen in the store, and whether an
	// honest remote had answered the request it came from by then
	poisoned      string
	poisonedNote  string
	poisonChecked uint32
	cutShort      bool // the run ended at the step cap, possibly in the middle of a resolution
	noWait        bool // C17: the next remote write is not followed by a Wait
	stopTask      *verifbubble.Task
	lastTip       *verifchain.Node // C02: the stored tip at the previous quiescent point
	subscribers   []*nodeSub
	// request -> remotes that answered it in turn (name, and name:lied
	// when the answer contained the liar's false value)
	answered map[string]map[string]bool
	calls    []*nodeCall
	// announcements of the current honest tip that the honest remote
	// delivered while the client believed its headers were current
	announcedWhileCurrent int
	tx                    *wire.MsgTx // C15: the transaction being broadcast
	txPhase               int         // 0 until the first block event after the broadcast, then 1
	txErr                 error
	txReturned            bool
	invsAtReturn          map[string]int
	rescanQuit            chan struct{}
	rescanQ2              chan struct{}
	stalledSub            *blockntfns.Subscription
}

// chainFH computes the filter header of n along its own branch, taking the
// filter hash of every block from pick, with memo as cache.
func (h *nodeH) chainFH(n *verifchain.Node, memo map[chainhash.Hash]chainhash.Hash, pick func(*verifchain.Node) chainhash.Hash) chainhash.Hash {
	var todo []*verifchain.Node
	cur := n
	for cur.Height > 0 {
		if _, ok := memo[cur.Hash]; ok {
			break
		}
		todo = append(todo, cur)
		cur = cur.Parent
	}
	prev := h.genFH
	if cur.Height > 0 {
		prev = memo[cur.Hash]
	}
	for i := len(todo) - 1; i >= 0; i-- {
		prev = verifchain.NextFilterHeader(pick(todo[i]), prev)
		memo[todo[i].Hash] = prev
	}
	return prev
}

func (h *nodeH) truthFH(n *verifchain.Node) chainhash.Hash {
	return h.chainFH(n, h.f.fh, func(x *verifchain.Node) chainhash.Hash { return h.f.data[x.Hash].FilterHash })
}

// claimedFH is the filter header remote p claims for n: the true one, or for
// a liar the chain that results from its false filter hash at lieAt.
func (h *nodeH) claimedFH(p *nodePeer, n *verifchain.Node) chainhash.Hash {
	if !p.liar() || n.Height < p.lieAt {
		return h.truthFH(n)
	}
	if p.fh == nil {
		p.fh = map[chainhash.Hash]chainhash.Hash{}
	}
	return h.chainFH(n, p.fh, func(x *verifchain.Node) chainhash.Hash {
		if x.Height == p.lieAt {
			return h.f.data[x.Hash].BadHash
		}
		return h.f.data[x.Hash].FilterHash
	})
}

// liar: the remote claims a false filter hash at lieAt (and everything that
// follows from it); "false-cfheaders" also serves the matching false filter,
// "false-cfheaders-true-filter" serves the true filter, which does not hash
// to its claim.
func (p *nodePeer) liar() bool {
	return p.behaviour == "false-cfheaders" || p.behaviour == "false-cfheaders-true-filter"
}

func (p *nodePeer) services() wire.ServiceFlag {
	s := wire.SFNodeNetwork | wire.SFNodeWitness | wire.SFNodeCF
	switch p.behaviour {
	case "no-cf-service":
		s &^= wire.SFNodeCF
	case "no-witness":
		s &^= wire.SFNodeWitness
	}
	return s
}

// view is the chain this remote serves headers from.
func (h *nodeH) view(p *nodePeer) []*verifchain.Node {
	switch p.behaviour {
	case "lighter-fork":
		// G .. T[forkFrom] B: always lighter than the honest chain
		return append(append([]*verifchain.Node{}, h.f.trunk[:h.f.forkFrom+1]...), h.f.fork[0])
	case "equal-fork":
		// the fork cut to the honest chain's height: equal work, and
		// only while the honest chain is still on the trunk
		tip := h.honestTip()
		if tip.Label[0] == 'T' && tip.Height > h.f.forkFrom {
			return append(append([]*verifchain.Node{}, h.f.trunk[:h.f.forkFrom+1]...), h.f.fork[:tip.Height-h.f.forkFrom]...)
		}
	case "invalid-header":
		tip := h.honest[len(h.honest)-1]
		if x, ok := h.f.bad[tip.Hash]; ok {
			return append(append([]*verifchain.Node{}, h.honest...), x)
		}
	}
	return h.honest
}

// run is the remote end of one connection: version handshake, pong, and a
// queue of everything else for the controller.
func (cn *nodeConn) run(h *nodeH) {
	pver := uint32(wire.AddrV2Version)
	params := h.f.params
	read := func() (wire.Message, error) {
		_, m, _, err := wire.ReadMessageN(cn.c, pver, params.Net)
		return m, err
	}
	write := func(m wire.Message) error {
		return wire.WriteMessage(cn.c, m, pver, params.Net)
	}
	fail := func() {
		cn.mu.Lock()
		cn.closed = true
		cn.mu.Unlock()
		cn.c.Close()
	}
	m, err := read()
	if err != nil {
		fail()
		return
	}
	if _, ok := m.(*wire.MsgVersion); !ok {
		fail()
		return
	}
	vfxNonce++
	me := wire.NewNetAddressIPPort(net.ParseIP("10.0.0.1"), 18444, cn.p.services())
	you := wire.NewNetAddressIPPort(net.ParseIP("10.0.0.2"), 18444, 0)
	v := wire.NewMsgVersion(me, you, vfxNonce, int32(len(h.view(cn.p))-1))
	v.Services = cn.p.services()
	v.ProtocolVersion = int32(pver)
	v.Timestamp = time.Unix(time.Now().Unix(), 0)
	if err := write(v); err != nil {
		fail()
		return
	}
	cn.mu.Lock()
	cn.p.versionSent = true
	cn.mu.Unlock()
	for {
		m, err := read()
		if err != nil {
			fail()
			return
		}
		if _, ok := m.(*wire.MsgVerAck); ok {
			break
		}
	}
	if cn.p.behaviour == "slow-handshake" {
		cn.mu.Lock()
		cn.hsRelease = make(chan struct{})
		cn.queue = append(cn.queue, nodeItem{handshake: true, at: time.Now()})
		cn.mu.Unlock()
		<-cn.hsRelease
	}
	if cn.p.behaviour == "garbage-after-verack" {
		// the verack and a message of another network in one write: the
		// client finishes the handshake and hits the protocol violation
		// in the same breath, before anything else has run
		var buf bytes.Buffer
		_ = wire.WriteMessage(&buf, wire.NewMsgVerAck(), pver, params.Net)
		_ = wire.WriteMessage(&buf, wire.NewMsgPing(7), pver, wire.MainNet)
		cn.c.Write(buf.Bytes())
		fail()
		return
	}
	if err := write(wire.NewMsgVerAck()); err != nil {
		fail()
		return
	}
	if cn.p.behaviour == "drops-after-handshake" {
		// gone before the client has registered the new peer
		fail()
		return
	}
	cn.mu.Lock()
	cn.ready = true
	cn.p.everReady = true
	cn.mu.Unlock()
	for {
		m, err := read()
		if err != nil {
			if _, ok := err.(*wire.MessageError); ok {
				continue
			}
			fail()
			return
		}
		switch q := m.(type) {
		case *wire.MsgPing:
			if err := write(wire.NewMsgPong(q.Nonce)); err != nil {
				fail()
				return
			}
		case *wire.MsgGetHeaders, *wire.MsgGetCFCheckpt, *wire.MsgGetCFHeaders,
			*wire.MsgGetCFilters, *wire.MsgGetData, *wire.MsgInv, *wire.MsgTx:
			cn.mu.Lock()
			if inv, ok := m.(*wire.MsgInv); ok && h.tx != nil && len(inv.InvList) == 1 && inv.InvList[0].Hash == h.tx.TxHash() {
				cn.p.txInvs++
			}
			cn.queue = append(cn.queue, nodeItem{req: m, at: time.Now()})
			cn.mu.Unlock()
		}
	}
}

func (cn *nodeConn) isClosed() bool {
	cn.mu.Lock()
	defer cn.mu.Unlock()
	return cn.closed
}

// replies computes what the remote answers to one request.
func (h *nodeH) replies(p *nodePeer, q wire.Message) (out []wire.Message, drop bool) {
	f := h.f
	switch p.behaviour {
	case "silent":
		return nil, false
	case "garbage":
		// a syntactically valid message nobody asked for
		g := wire.NewMsgCFHeaders()
		g.StopHash = f.bad[f.trunk[f.start].Hash].Hash
		return []wire.Message{g}, false
	}
	switch m := q.(type) {
	case *wire.MsgGetHeaders:
		view := h.view(p)
		start := 0
	find:
		for _, l := range m.BlockLocatorHashes {
			for i, n := range view {
				if n.Hash == *l {
					start = i
					break find
				}
			}
		}
		resp := wire.NewMsgHeaders()
		for _, n := range view[start+1:] {
			hd := n.Hdr
			resp.Headers = append(resp.Headers, &hd)
			if n.Hash == m.HashStop || len(resp.Headers) == wire.MaxBlockHeadersPerMsg {
				break
			}
		}
		return []wire.Message{resp}, false

	case *wire.MsgGetCFCheckpt:
		stop, ok := f.byHash[m.StopHash]
		if !ok || stop.Invalid != "" {
			return nil, false
		}
		var cps []*chainhash.Hash
		for n := stop; n != nil && n.Height > 0; n = n.Parent {
			if n.Height%wire.CFCheckptInterval == 0 {
				c := h.claimedFH(p, n)
				cps = append([]*chainhash.Hash{&c}, cps...)
			}
		}
		if p.behaviour == "short-cfcheckpt" && len(cps) > 1 {
			// a node that has not indexed filters beyond the first
			// checkpoint interval
			cps = cps[:1]
		}
		resp := wire.NewMsgCFCheckpt(m.FilterType, &m.StopHash, len(cps))
		for _, c := range cps {
			if err := resp.AddCFHeader(c); err != nil {
				panic(verifeng.InfraError{Msg: err.Error()})
			}
		}
		return []wire.Message{resp}, false

	case *wire.MsgGetCFHeaders:
		if p.behaviour == "drops-on-cf" {
			return nil, true
		}
		stop, ok := f.byHash[m.StopHash]
		if !ok || stop.Invalid != "" || uint32(stop.Height) < m.StartHeight {
			return nil, false
		}
		var path []*verifchain.Node
		for n := stop; n != nil && uint32(n.Height) >= m.StartHeight; n = n.Parent {
			path = append([]*verifchain.Node{n}, path...)
		}
		resp := wire.NewMsgCFHeaders()
		resp.FilterType = m.FilterType
		resp.StopHash = m.StopHash
		if path[0].Parent != nil {
			resp.PrevFilterHeader = h.claimedFH(p, path[0].Parent)
		}
		if p.behaviour == "false-prev-header" {
			resp.PrevFilterHeader[3] ^= 0x40
		}
		for _, n := range path {
			if n.Height == 0 {
				c := f.genFilterHash
				resp.AddCFHash(&c)
				continue
			}
			fh := f.data[n.Hash].FilterHash
			if p.liar() && n.Height == p.lieAt {
				fh = f.data[n.Hash].BadHash
			}
			c := fh
			resp.AddCFHash(&c)
		}
		return []wire.Message{resp}, false

	case *wire.MsgGetCFilters:
		n, ok := f.byHash[m.StopHash]
		if !ok || n.Invalid != "" {
			return nil, false
		}
		for n != nil && uint32(n.Height) >= m.StartHeight && n.Height > 0 {
			d := f.data[n.Hash]
			flt := d.Filter
			if p.behaviour == "false-cfheaders" && n.Height == p.lieAt {
				flt = d.BadFilter
			}
			if p.behaviour == "false-cfilter" {
				// true filter headers, but a filter that omits a script
				flt = d.BadFilter
			}
			data, err := flt.NBytes()
			if err != nil {
				panic(err)
			}
			nh := n.Hash
			out = append([]wire.Message{wire.NewMsgCFilter(m.FilterType, &nh, data)}, out...)
			n = n.Parent
		}
		return out, false

	case *wire.MsgInv:
		// the client announces a transaction
		if h.tx == nil || len(m.InvList) != 1 || m.InvList[0].Hash != h.tx.TxHash() {
			return nil, false
		}
		if p.txReply[h.txPhase] == "silent" {
			return nil, false
		}
		p.txActual[h.txPhase] = "accept"
		gd := wire.NewMsgGetData()
		iv := *m.InvList[0]
		if p.txReply[h.txPhase] == "accept-other-inv-type" {
			// asks for the announced transaction under the other
			// inventory type (with / without witness data)
			if iv.Type == wire.InvTypeWitnessTx {
				iv.Type = wire.InvTypeTx
			} else {
				iv.Type = wire.InvTypeWitnessTx
			}
		}
		_ = gd.AddInvVect(&iv)
		return []wire.Message{gd}, false

	case *wire.MsgTx:
		if h.tx == nil || m.TxHash() != h.tx.TxHash() {
			return nil, false
		}
		var rej *wire.MsgReject
		switch p.txReply[h.txPhase] {
		case "invalid":
			rej = wire.NewMsgReject(wire.CmdTx, wire.RejectInvalid, "bad-txns-inputs-missingorspent")
		case "mempool":
			rej = wire.NewMsgReject(wire.CmdTx, wire.RejectDuplicate, "txn-already-in-mempool")
		case "confirmed":
			rej = wire.NewMsgReject(wire.CmdTx, wire.RejectDuplicate, "txn-already-known")
		default:
			return nil, false
		}
		p.txActual[h.txPhase] = p.txReply[h.txPhase]
		rej.Hash = h.tx.TxHash()
		return []wire.Message{rej}, false

	case *wire.MsgGetData:
		for _, iv := range m.InvList {
			d, ok := f.data[iv.Hash]
			if !ok {
				continue
			}
			blk := d.Block
			if p.behaviour == "bad-witness" {
				// witness data on the coinbase input without any
				// witness commitment: same txids, same merkle root
				cp := *blk
				cp.Transactions = append([]*wire.MsgTx{}, blk.Transactions...)
				cb := *cp.Transactions[0]
				cb.TxIn = append([]*wire.TxIn{}, cb.TxIn...)
				in := *cb.TxIn[0]
				in.Witness = wire.TxWitness{make([]byte, 32)}
				cb.TxIn[0] = &in
				cp.Transactions[0] = &cb
				blk = &cp
			}
			if p.behaviour == "bad-block" {
				cp := *blk
				cp.Transactions = append([]*wire.MsgTx{}, blk.Transactions...)
				tx := *cp.Transactions[1]
				tx.LockTime ^= 1
				cp.Transactions[1] = &tx
				blk = &cp
			}
			out = append(out, blk)
		}
		return out, false
	}
	return nil, false
}

// ---- the controller

type nodeAct struct {
	name string
	cost int
	run  func()
	// burst: the step may carry one scheduler or select deviation
	burst bool
}

func (h *nodeH) peerByAddr(a string) *nodePeer {
	for _, p := range h.peers {
		if p.addr == a {
			return p
		}
	}
	return nil
}

func (h *nodeH) dial(a net.Addr) (net.Conn, error) {
	p := h.peerByAddr(a.String())
	if p == nil {
		return nil, errors.New("no such host")
	}
	d := &nodeDial{p: p, done: make(chan net.Conn)}
	h.mu.Lock()
	h.dials = append(h.dials, d)
	h.mu.Unlock()
	c := <-d.done
	if c == nil {
		return nil, errors.New("connection refused")
	}
	return c, nil
}

// send writes messages from a remote to the client, one stimulus.
func (h *nodeH) send(cn *nodeConn, msgs []wire.Message) {
	if len(msgs) == 0 {
		return
	}
	tk := verifbubble.Go("remote-write", func() (any, error) {
		for _, m := range msgs {
			// blocks and transactions go out with their witness data
			_, err := wire.WriteMessageWithEncodingN(cn.c, m, uint32(wire.AddrV2Version), h.f.params.Net, wire.WitnessEncoding)
			if err != nil {
				return nil, err
			}
		}
		return nil, nil
	})
	if h.noWait {
		// the next stimulus (Stop) is launched into the same interval
		return
	}
	verifbubble.Wait()
	if !tk.Done() {
		// the client does not read from this connection; closing it
		// releases the writer
		h.c.Note("%s: the client is not reading; the remote closes the connection", cn.p.name)
		cn.c.Close()
		verifbubble.Wait()
	}
}

func describe(f *nodeFix, m wire.Message) string {
	switch q := m.(type) {
	case *wire.MsgGetHeaders:
		l := "-"
		if len(q.BlockLocatorHashes) > 0 {
			l = f.label(*q.BlockLocatorHashes[0])
		}
		return fmt.Sprintf("getheaders(from %s)", l)
	case *wire.MsgGetCFHeaders:
		return fmt.Sprintf("getcfheaders(%d..%s)", q.StartHeight, f.label(q.StopHash))
	case *wire.MsgGetCFilters:
		return fmt.Sprintf("getcfilters(%d..%s)", q.StartHeight, f.label(q.StopHash))
	case *wire.MsgGetCFCheckpt:
		return fmt.Sprintf("getcfcheckpt(%s)", f.label(q.StopHash))
	case *wire.MsgGetData:
		var l []string
		for _, iv := range q.InvList {
			l = append(l, f.label(iv.Hash))
		}
		return "getdata(" + strings.Join(l, ",") + ")"
	case *wire.MsgInv:
		return "inv"
	case *wire.MsgTx:
		return "tx"
	}
	return m.Command()
}

// handle lets the remote act on the first item of its queue.
func (h *nodeH) handle(cn *nodeConn) {
	cn.mu.Lock()
	it := cn.queue[0]
	cn.queue = cn.queue[1:]
	cn.mu.Unlock()
	if it.handshake {
		close(cn.hsRelease)
		verifbubble.Wait()
		return
	}
	if it.announce != nil {
		// An announcement that reaches a client which believes its headers
		// are current must make it fetch the announced chain; one that
		// arrives during initial sync from a non-sync peer is ignored by
		// design and made up for at the next announcement.
		if cn.p.name == "H" && *it.announce == h.honestTip().Hash && h.cs.blockManager.BlockHeadersSynced() {
			h.announcedWhileCurrent++
		}
		inv := wire.NewMsgInv()
		_ = inv.AddInvVect(wire.NewInvVect(wire.InvTypeBlock, it.announce))
		h.send(cn, []wire.Message{inv})
		return
	}
	msgs, drop := h.replies(cn.p, it.req)
	if len(msgs) > 0 && time.Now().Equal(it.at) {
		switch it.req.(type) {
		case *wire.MsgGetCFHeaders, *wire.MsgGetCFCheckpt:
			if h.answered == nil {
				h.answered = map[string]map[string]bool{}
			}
			key := describe(h.f, it.req)
			if h.answered[key] == nil {
				h.answered[key] = map[string]bool{}
			}
			h.answered[key][cn.p.name] = true
			if cn.p.liar() && h.liesIn(cn.p, it.req) {
				h.answered[key][cn.p.name+":lied"] = true
			}
		}
	}
	if _, ok := it.req.(*wire.MsgGetCFCheckpt); ok && cn.p.behaviour == "honest" && len(msgs) > 0 {
		h.honestCP = true
	}
	if q, ok := it.req.(*wire.MsgGetCFHeaders); ok && cn.p.behaviour == "honest" && len(msgs) > 0 {
		if h.honestCF == nil {
			h.honestCF = map[chainhash.Hash]bool{}
		}
		for n := h.f.byHash[q.StopHash]; n != nil && uint32(n.Height) >= q.StartHeight; n = n.Parent {
			h.honestCF[n.Hash] = true
		}
	}
	if drop {
		cn.c.Close()
		verifbubble.Wait()
		return
	}
	if _, ok := it.req.(*wire.MsgGetData); ok && (cn.p.behaviour == "bad-block" || cn.p.behaviour == "bad-witness") && len(msgs) > 0 && time.Now().Equal(it.at) {
		cn.p.servedBadBlock = true
	}
	h.send(cn, msgs)
}

// announce queues a block announcement on every live connection of a remote
// whose view ends in tip.
func (h *nodeH) announceTip() (byHonest bool) {
	for _, p := range h.peers {
		if p.conn == nil || p.conn.isClosed() || !p.conn.ready {
			continue
		}
		if p.behaviour == "silent" || p.behaviour == "garbage" || p.behaviour == "lighter-fork" {
			continue
		}
		v := h.view(p)
		tip := v[len(v)-1].Hash
		p.conn.mu.Lock()
		p.conn.queue = append(p.conn.queue, nodeItem{announce: &tip})
		p.conn.mu.Unlock()
		if p.name == "H" {
			byHonest = true
		}
	}
	return byHonest
}

func (h *nodeH) honestTip() *verifchain.Node { return h.honest[len(h.honest)-1] }

// checkPoison looks for a stored filter header that differs from the true
// one of the stored block at the same height, and records whether an honest
// remote had served that block's filter header by then.
func (h *nodeH) checkPoison() {
	if h.poisoned != "" {
		return
	}
	_, fht, err := h.cs.RegFilterHeaders.ChainTip()
	if err != nil {
		return
	}
	// heights below the fork point never change once checked
	from := uint32(1)
	if h.poisonChecked > 0 {
		from = h.poisonChecked + 1
		if ff := uint32(h.f.forkFrom); from > ff+1 {
			from = ff + 1
		}
	}
	for ht := from; ht <= fht; ht++ {
		hd, err := h.cs.BlockHeaders.FetchHeaderByHeight(ht)
		if err != nil {
			return
		}
		n, ok := h.f.byHash[hd.BlockHash()]
		if !ok || n.Invalid != "" {
			return
		}
		fh, err := h.cs.RegFilterHeaders.FetchHeaderByHeight(ht)
		if err != nil {
			return
		}
		if ht <= uint32(h.f.forkFrom) && *fh == h.truthFH(n) {
			h.poisonChecked = ht
		}
		if *fh != h.truthFH(n) {
			// below a filter checkpoint the value committed is decided by
			// the checkpoint round: an honest answer to the batch request
			// is discarded when it contradicts checkpoints that only a
			// liar supplied
			lastCP := uint32(h.honestTip().Height) / wire.CFCheckptInterval * wire.CFCheckptInterval
			if h.honestCF[n.Hash] && (ht > lastCP || h.honestCP) {
				h.poisoned = "despite-honest-response"
			} else {
				h.poisoned = "without-honest-response"
			}
			h.poisonedNote = fmt.Sprintf("a false filter header for %s (height %d) was committed", n.Label, ht)
			h.c.Note("%s (%s)", h.poisonedNote, h.poisoned)
			return
		}
	}
}

// converged reports whether the client reports the honest tip with matching
// block and filter headers and believes itself current.
func (h *nodeH) converged() (bool, string) {
	bb, err := h.cs.BestBlock()
	if err != nil {
		return false, "BestBlock: " + err.Error()
	}
	tip := h.honestTip()
	if bb.Hash != tip.Hash || bb.Height != tip.Height {
		return false, fmt.Sprintf("BestBlock is %s (height %d), the honest tip is %s (height %d)", h.f.label(bb.Hash), bb.Height, tip.Label, tip.Height)
	}
	fh, fht, err := h.cs.RegFilterHeaders.ChainTip()
	if err != nil {
		return false, "filter ChainTip: " + err.Error()
	}
	if int32(fht) != tip.Height || *fh != h.truthFH(tip) {
		return false, fmt.Sprintf("filter header tip is at height %d and does not match the honest tip's filter header", fht)
	}
	if !h.cs.IsCurrent() {
		return false, "IsCurrent() is false"
	}
	return true, ""
}

// safety is evaluated at every quiescent point.
func (h *nodeH) safety() bool {
	c := h.c
	bb, err := h.cs.BestBlock()
	if err != nil {
		return c.Fail("C04", "C04:bestblock-error", "BestBlock: %v", err)
	}
	n, ok := h.f.byHash[bb.Hash]
	if !ok || n.Invalid != "" || n.Height != bb.Height {
		return c.Fail("C04", "C04:best-block-not-on-valid-chain", "BestBlock reports %s at height %d, which is not a block of a valid chain from genesis", h.f.label(bb.Hash), bb.Height)
	}
	hd, err := h.cs.BlockHeaders.FetchHeaderByHeight(uint32(bb.Height))
	if err != nil || hd.BlockHash() != bb.Hash {
		return c.Fail("C04", "C04:best-block-not-in-store", "BestBlock reports %s at height %d but the block header store has %v there (%v)", n.Label, bb.Height, hd, err)
	}
	if h.oracle == "C02" && h.c02Check() {
		return true
	}
	if h.oracle == "C13" || h.oracle == "C04" {
		// the client keeps no connection to a banned address
		for _, sp := range h.cs.Peers() {
			if sp.Connected() && h.cs.IsBanned(sp.Addr()) {
				return c.Fail("C13", "C13:connected-to-banned-address", "the client keeps a connection to %s although that address is banned", sp.Addr())
			}
		}
	}
	return false
}

// c02Check compares the stored block header chain with the one seen at the
// previous quiescent point: a chain that does not extend it must carry
// strictly more work.
func (h *nodeH) c02Check() bool {
	hd, ht, err := h.cs.BlockHeaders.ChainTip()
	if err != nil {
		return h.c.Fail("C02", "C02:chaintip-error", "%v", err)
	}
	tip, ok := h.f.byHash[hd.BlockHash()]
	if !ok || tip.Height != int32(ht) {
		return h.c.Fail("C02", "C02:unknown-tip", "the stored tip %s at height %d is not a block of the tree", h.f.label(hd.BlockHash()), ht)
	}
	prev := h.lastTip
	h.lastTip = tip
	if prev == nil || prev == tip {
		return false
	}
	for n := tip; n != nil; n = n.Parent {
		if n == prev {
			return false // an extension
		}
	}
	if tip.Work.Cmp(prev.Work) <= 0 {
		return h.c.Fail("C02", "C02:reorganised-onto-branch-not-heavier", "the stored chain went from tip %s (height %d) to tip %s (height %d), a different branch that does not carry more work", prev.Label, prev.Height, tip.Label, tip.Height)
	}
	return false
}

func (h *nodeH) honestBusy() bool {
	for _, p := range h.peers {
		if p.name != "H" {
			continue
		}
		if cn := h.liveConn(p); cn != nil {
			cn.mu.Lock()
			n := len(cn.queue)
			cn.mu.Unlock()
			return n > 0
		}
	}
	return false
}

func (h *nodeH) liveConn(p *nodePeer) *nodeConn {
	if p.conn != nil && !p.conn.isClosed() {
		return p.conn
	}
	return nil
}

// pending lists the default-ordered protocol actions available now.
func (h *nodeH) pending() []nodeAct {
	var acts []nodeAct
	h.mu.Lock()
	dials := append([]*nodeDial{}, h.dials...)
	h.mu.Unlock()
	sort.SliceStable(dials, func(i, j int) bool { return dials[i].p.idx < dials[j].p.idx })
	for _, d := range dials {
		d := d
		acts = append(acts, nodeAct{name: fmt.Sprintf("%s accepts the connection", d.p.name), run: func() {
			h.mu.Lock()
			for i, x := range h.dials {
				if x == d {
					h.dials = append(h.dials[:i], h.dials[i+1:]...)
					break
				}
			}
			h.mu.Unlock()
			var c1, c2 net.Conn
			if d.p.behaviour == "garbage-after-verack" || d.p.behaviour == "drops-after-handshake" {
				c1, c2 = newBufConnPair()
			} else {
				c1, c2 = net.Pipe()
			}
			cn := &nodeConn{p: d.p, c: c2}
			d.p.conn = cn
			d.p.conns++
			go cn.run(h)
			d.done <- c1
		}})
	}
	for _, p := range h.peers {
		cn := h.liveConn(p)
		if cn == nil {
			continue
		}
		cn.mu.Lock()
		n := len(cn.queue)
		var first nodeItem
		if n > 0 {
			first = cn.queue[0]
		}
		cn.mu.Unlock()
		if n == 0 {
			continue
		}
		what := "announces its tip"
		if first.req != nil {
			what = "answers " + describe(h.f, first.req)
		}
		if first.handshake {
			what = "completes the handshake"
		}
		acts = append(acts, nodeAct{name: fmt.Sprintf("%s %s", p.name, what), run: func() { h.handle(cn) }})
	}
	return acts
}

// nodeCall is one API call of the client's user, running in its own
// goroutine.
type nodeCall struct {
	name string
	task *verifbubble.Task
	// check inspects the outcome of a call that has returned.
	check func(val any, err error) string
}

type nodeMode struct {
	name       string // C04, C13, C17
	behaviours []string
	stops      bool // Stop is offered at every quiescent point
	calls      bool // the script contains API calls
	noEarly    bool // script events only when the node is idle
	long       bool // the 2005-block tree (filter checkpoints at 1000 and 2000)
	converge   bool // convergence on the honest chain is demanded
	subs       bool // virtual block subscribers replay the events (C19)
	delays     bool // every step may carry one scheduler deviation (delay-bounded scheduling inside the burst)
	// only the step in which Stop is called may carry one
	delaysAtStopOnly bool
	onlyStops        bool // no deviation but Stop (and a scheduler deviation in its step)
	gap              bool // long chain whose last blocks are days apart (client not current after 2000 headers)
	// every step may carry one preemption at a synchronisation point of
	// these classes (verifdetrt.Sync*; DESIGN 3.9)
	sync uint32
	// the in-burst deviations are the only ones (no stimulus out of turn)
	onlyBurst bool
}

var nodeModes = map[string]nodeMode{
	"C04": {name: "C04", behaviours: []string{"honest", "silent", "invalid-header", "lighter-fork", "false-cfheaders",
		"false-prev-header", "garbage", "drops-on-cf", "bad-block", "drops-after-handshake", "garbage-after-verack"}, converge: true},
	// the same with the order inside a burst as a further dimension: one
	// delay of a runnable goroutine at every scheduling decision in turn
	"C04D": {name: "C04", behaviours: []string{"honest", "silent", "invalid-header", "lighter-fork", "false-cfheaders",
		"garbage", "drops-on-cf", "drops-after-handshake", "garbage-after-verack"}, converge: true, delays: true},
	"C13": {name: "C13", behaviours: []string{"no-cf-service", "no-witness", "bad-block", "bad-witness", "slow-handshake", "false-cfheaders", "false-prev-header", "well-behaved-banned-by-user"}, calls: true},
	// the enforcement part with one preemption at a go statement or mutex
	// operation: a goroutine started by the ban path may run before the
	// statements that follow its go statement
	"C13P": {name: "C13", behaviours: []string{"bad-block", "bad-witness", "no-cf-service", "false-cfheaders"}, calls: true,
		sync: verifdetrt.SyncSpawn | verifdetrt.SyncMutex, onlyBurst: true},
	"C17": {name: "C17", behaviours: []string{"honest", "silent", "false-cfheaders", "drops-on-cf"}, stops: true, calls: true},
	"C15": {name: "C15", behaviours: []string{"honest"}, noEarly: true},
	// C03 on a chain long enough for filter checkpoints: the liar's false
	// filter hash makes its checkpoints false from that height on
	"C04L": {name: "C04", converge: true, long: true, behaviours: []string{"false-cfheaders", "false-prev-header", "silent", "drops-on-cf", "honest", "invalid-header", "garbage"}},
	// C02 end to end: forks that are not strictly heavier must never replace
	// the stored chain
	"C02N": {name: "C02", behaviours: []string{"equal-fork", "lighter-fork", "invalid-header", "honest", "silent"}},
	// C05/C06 end to end: what GetCFilter / GetBlock return with remotes
	// that serve false filters or corrupted blocks
	"C05N": {name: "C05", calls: true, behaviours: []string{"false-cfilter", "bad-block", "false-cfheaders", "honest", "silent"}},
	"C19N": {name: "C19", subs: true, behaviours: []string{"honest", "silent", "invalid-header", "lighter-fork", "false-cfheaders", "drops-on-cf"}},
	"C19L": {name: "C19", subs: true, long: true, behaviours: []string{"honest", "false-cfheaders", "silent", "drops-on-cf"}},
	// Stop in the middle of an initial sync over a long chain: the
	// checkpointed filter header download runs while block headers are
	// not current
	"C17L": {name: "C17", behaviours: []string{"honest"}, stops: true, long: true, gap: true, onlyStops: true},
	"C03L": {name: "C03", behaviours: []string{"false-cfheaders", "false-cfheaders-true-filter", "short-cfcheckpt", "false-prev-header", "silent", "drops-on-cf", "honest"}, long: true},
}

type nodeEv struct {
	name string
	run  func()
}

func nodeRun(c *verifeng.Chooser, f *nodeFix, env *verifhfs.Env, mode nodeMode, nadv int) {
	h := &nodeH{c: c, f: f, env: env, oracle: mode.name}
	// the virtual clock starts in 2000; move it past the chain's timestamps
	time.Sleep(f.now.Sub(time.Now()))

	// scenario
	var names []string
	honestPeer := &nodePeer{name: "H", behaviour: "honest"}
	advs := []*nodePeer{}
	for i := 0; i < nadv; i++ {
		p := &nodePeer{name: string(rune('P' + i))}
		p.behaviour = mode.behaviours[c.ChooseFree(len(mode.behaviours), "behaviour")]
		if p.liar() && !mode.long {
			p.lieAt = int32(1 + c.ChooseFree(2, "lie-at")*2) // height 1 or 3
		}
		if p.liar() && mode.long {
			// inside the first checkpoint interval, exactly on a
			// checkpoint, inside the second interval, above the last
			// checkpoint
			p.lieAt = []int32{500, 1000, 1500, 2001}[c.ChooseFree(4, "lie-at")]
		}
		advs = append(advs, p)
	}
	if nadv > 0 && c.ChooseFree(2, "honest-position") == 1 {
		h.peers = append(append(h.peers, advs...), honestPeer)
	} else {
		h.peers = append(append(h.peers, honestPeer), advs...)
	}
	var addrs []string
	for i, p := range h.peers {
		p.idx = i
		p.addr = fmt.Sprintf("10.0.0.%d:18444", i+1)
		if mode.name == "C13" && nadv == 2 && p != honestPeer {
			// the two adversaries are two nodes on one host: same IP
			// address (which is what a ban records), different ports
			p.addr = fmt.Sprintf("10.0.0.9:%d", 18444+i)
		}
		addrs = append(addrs, p.addr)
		names = append(names, fmt.Sprintf("%s=%s@%d", p.name, p.behaviour, p.lieAt))
	}
	if mode.name == "C15" {
		for _, p := range h.peers {
			p.txReply[0] = c15Replies[c.ChooseFree(len(c15Replies), "tx-reply-"+p.name)]
		}
		for _, p := range h.peers {
			p.txReply[1] = c15Later[c.ChooseFree(len(c15Later), "tx-reply-later-"+p.name)]
			names = append(names, fmt.Sprintf("%s:tx=%s/%s", p.name, p.txReply[0], p.txReply[1]))
		}
	}
	c.Note("peers in ConnectPeers order: %s", strings.Join(names, " "))
	h.honest = append(h.honest, f.trunk[:f.start+1]...)

	DisableDNSSeed = true
	if os.Getenv("VFX_LOG") != "" {
		// debugging aid for replays: the client's own log
		lg := btclog.NewBackend(os.Stdout).Logger("NTRN")
		lg.SetLevel(btclog.LevelDebug)
		log = lg
	}
	cs, err := NewChainService(Config{
		DataDir:      env.Dir,
		Database:     env.DB,
		ChainParams:  *f.params,
		ConnectPeers: addrs,
		Dialer:       h.dial,
		NameResolver: func(host string) ([]net.IP, error) { return []net.IP{net.ParseIP(host)}, nil },
		// in the Stop scenarios filters are also written to the database,
		// through the batch writer (one more subsystem to shut down in order)
		PersistToDisk: mode.name == "C17" && !mode.long,
	})
	if err != nil {
		panic(verifeng.InfraError{Msg: "NewChainService: " + err.Error()})
	}
	h.cs = cs
	gfh, _, err := cs.RegFilterHeaders.ChainTip()
	if err != nil {
		panic(verifeng.InfraError{Msg: "setup: " + err.Error()})
	}
	h.genFH = *gfh
	if err := cs.Start(context.Background()); err != nil {
		panic(verifeng.InfraError{Msg: "Start: " + err.Error()})
	}
	stopped := false
	defer func() {
		if !stopped {
			h.stop(false)
		}
	}()
	if mode.subs {
		h.subscribe("S0", 0)
	}
	if mode.name == "C17" {
		h.startRescan()
	}

	// the default script of environment events, taken one at a time each
	// time the node has converged
	grow := func() {
		last := h.honestTip()
		var nb *verifchain.Node
		if last.Label[0] == 'T' {
			nb = f.trunk[last.Height+1]
		} else {
			nb = f.fork[last.Height-f.forkFrom]
		}
		h.honest = append(h.honest, nb)
		h.announceTip()
	}
	reorg := func() {
		// onto the fork from T1 that is exactly one block longer than the
		// chain it replaces: the smallest margin by which a branch wins
		tip := h.honestTip().Height
		h.honest = append(append([]*verifchain.Node{}, f.trunk[:f.forkFrom+1]...), f.fork[:tip-f.forkFrom+1]...)
		h.announceTip()
	}
	var script []nodeEv
	if mode.calls {
		script = append(script, h.callEvents(mode)...)
	}
	if mode.name == "C15" {
		script = h.c15Script(grow)
	} else if mode.subs {
		late := func(name string) nodeEv {
			if name == "S2" && mode.long {
				// a backlog of more than 2000 blocks
				return nodeEv{"a subscriber registers with the backlog above height 1", func() { h.subscribe(name, 1) }}
			}
			return nodeEv{"a subscriber registers with the backlog above the fork point", func() { h.subscribe(name, uint32(f.forkFrom)) }}
		}
		script = append(script,
			nodeEv{"the honest chain grows by one block", grow},
			late("S1"),
			nodeEv{"the honest side reorganises onto the fork", reorg},
			late("S2"),
			nodeEv{"the honest chain grows by one block", grow})
	} else {
		script = append(script,
			nodeEv{"the honest chain grows by one block", grow},
			nodeEv{"the honest side reorganises onto the fork", reorg},
			nodeEv{"the honest chain grows by one block", grow})
	}
	next := 0
	idle := 0 // virtual seconds spent waiting in the current stage
	// A client that follows a lighter chain from its sync peer only looks
	// at the other peers' chains again when they announce a block, so
	// before the honest remote's first announcement to a client that is
	// current the harness waits a shorter time and moves on; after that
	// convergence is demanded after every chain event.
	const horizon = 300
	const stageWait = 90
	steps := 0
	stopNow := false
	lastProgress := ""
	if mode.delays || mode.delaysAtStopOnly || mode.sync != 0 {
		h.burst = verifbubble.NewBurst(c)
		if h.burst != nil && mode.sync != 0 {
			h.burst.Sync = mode.sync
			if !mode.delays && !mode.delaysAtStopOnly {
				h.burst.NoSched, h.burst.NoSelect = true, true
			}
		}
	}
	for !c.Failed() {
		verifbubble.Wait()
		h.burst.End()
		if h.safety() {
			return
		}
		if sig, detail := verifbubble.LockOrder(); sig != "" {
			c.Fail(mode.name, mode.name+":lock-order-inversion:"+sig, "%s", detail)
			return
		}
		// the horizon is 300 s without progress, not 300 s in all
		if _, bt, err := h.cs.BlockHeaders.ChainTip(); err == nil {
			_, ft, _ := h.cs.RegFilterHeaders.ChainTip()
			if key := fmt.Sprintf("%d/%d", bt, ft); key != lastProgress {
				lastProgress = key
				idle = 0
				h.honestWasSyncPeer = false
			}
		}
		if sp := h.cs.blockManager.SyncPeer(); sp != nil {
			if p := h.peerByAddr(sp.Addr()); p != nil && p.name == "H" {
				h.honestWasSyncPeer = true
			}
		}
		if mode.subs && h.drainSubs() {
			return
		}
		h.checkPoison()
		if h.oracle == "C03" && h.poisoned == "despite-honest-response" {
			c.Fail("C03", "C03:false-filter-header-committed-despite-honest-response", "%s although an honest remote had served that block's filter header", h.poisonedNote)
			return
		}
		if h.oracle == "C03" {
			_, bt, err1 := h.cs.BlockHeaders.ChainTip()
			_, ft, err2 := h.cs.RegFilterHeaders.ChainTip()
			if err1 != nil || err2 != nil || ft > bt {
				c.Fail("C03", "C03:filter-headers-ahead-of-block-headers", "filter header tip %d, block header tip %d (%v, %v)", ft, bt, err1, err2)
				return
			}
		}
		if h.checkCalls(false) {
			return
		}
		steps++
		if steps%16 == 0 {
			verifbubble.MaybeGC()
		}
		if steps > 800 || (steps > 300 && !mode.converge) {
			if !mode.converge {
				// progress is not this mode's subject (and the client may
				// depend on the random order of a map for it, which the
				// determinised runtime fixes)
				c.Note("300 steps without reaching the end of the script")
				h.cutShort = true
				break
			}
			c.Fail(mode.name, mode.name+":no-progress", "800 steps without reaching the end of the script")
			return
		}
		acts := h.pending()
		var menu []nodeAct
		fire := func(ev nodeEv) func() { return func() { next++; idle = 0; h.honestWasSyncPeer = false; ev.run() } }
		// default action
		switch {
		case len(acts) > 0:
			menu = append(menu, acts[0])
			for _, a := range acts[1:] {
				if mode.onlyStops || mode.onlyBurst {
					break
				}
				a.cost = 1
				a.name += " (out of turn)"
				menu = append(menu, a)
			}
		default:
			ok, why := h.converged()
			ok = ok && !h.callsRunning()
			switch {
			case ok && next == len(script):
				menu = append(menu, nodeAct{name: "end"})
			case ok:
				menu = append(menu, nodeAct{name: script[next].name, run: fire(script[next])})
			case next < len(script) && idle >= stageWait && (h.announcedWhileCurrent == 0 || !mode.converge):
				c.Note("not converged after %d s: %s", idle, why)
				menu = append(menu, nodeAct{name: script[next].name, run: fire(script[next])})
			case idle >= horizon:
				if !mode.converge {
					// convergence is C04's subject
					menu = append(menu, nodeAct{name: "end"})
					break
				}
				sig := "C04:does-not-converge"
				if h.poisoned != "" {
					sig += ":false-filter-header-committed-" + h.poisoned
					why += "; " + h.poisonedNote
				} else if _, bt, err := h.cs.BlockHeaders.ChainTip(); err == nil && int32(bt) < h.honestTip().Height && !h.honestWasSyncPeer {
					if sp := h.cs.blockManager.SyncPeer(); sp != nil && !sp.Connected() {
						// not the known finding (connected peers that stall
						// and come back): the block manager holds on to a
						// peer that is gone
						sig += ":sync-peer-is-gone-and-was-not-replaced"
						why += fmt.Sprintf("; the block manager's sync peer %s is not connected any more", sp.Addr())
					} else {
						sig += ":honest-peer-never-chosen-as-sync-peer"
						why += "; in these 300 s the honest remote was never the sync peer"
					}
				}
				c.Fail("C04", sig, "%d virtual seconds after the last event, with the honest peer answering everything: %s", idle, why)
				return
			default:
				menu = append(menu, nodeAct{name: "5 s pass", run: func() { idle += 5; time.Sleep(5 * time.Second) }})
			}
		}
		if menu[0].name == "end" {
			break
		}
		// deviations
		if len(acts) > 0 {
			if next < len(script) && !mode.noEarly && !mode.onlyStops && !mode.onlyBurst {
				menu = append(menu, nodeAct{name: script[next].name + " (while the node is busy)", cost: 1, run: fire(script[next])})
			}
			// the honest remote of the statement answers promptly:
			// time only passes while nothing is waiting for it
			if !h.honestBusy() && !mode.noEarly && !mode.onlyStops && !mode.onlyBurst {
				menu = append(menu, nodeAct{name: "5 s pass (while requests are pending)", cost: 1, run: func() { time.Sleep(5 * time.Second) }})
			}
		}
		for _, p := range h.peers {
			cn := h.liveConn(p)
			// the honest remote of the statement stays connected
			if cn == nil || !cn.ready || p.name == "H" || mode.noEarly || mode.onlyStops || mode.onlyBurst {
				continue
			}
			menu = append(menu, nodeAct{name: p.name + " drops the connection", cost: 1, run: func() { p.dropped = true; cn.c.Close() }})
		}
		if mode.stops {
			menu = append(menu, nodeAct{name: "Stop", cost: 1, run: func() { stopNow = true }})
			if len(acts) > 0 && acts[0].run != nil && !strings.Contains(acts[0].name, "accepts the connection") {
				// Stop and the next answer of a remote in the same
				// interval, in both launch orders: what happens in
				// between is the scheduler's, but it is not the
				// sequential order of the plain Stop above
				first := acts[0]
				// in the step in which Stop meets an answer the order
				// of the goroutines involved is a further dimension
				// (quick tier: during the initial sync only)
				bst := mode.delaysAtStopOnly && (next == 0 || verifeng.Tier() == "thorough")
				menu = append(menu, nodeAct{name: "Stop is called and, before anything else happens, " + first.name, cost: 1, burst: bst, run: func() {
					h.stopTask = verifbubble.Go("Stop", func() (any, error) { return nil, h.cs.Stop() })
					first.run()
					stopNow = true
				}})
				menu = append(menu, nodeAct{name: first.name + " and, before the client has reacted, Stop is called", cost: 1, burst: bst, run: func() {
					h.noWait = true
					first.run()
					h.noWait = false
					stopNow = true
				}})
			}
		}
		costs := make([]int, len(menu))
		for i, a := range menu {
			costs[i] = a.cost
		}
		k := c.ChooseCosts(costs, "step")
		a := menu[k]
		if a.run != nil && (!mode.delaysAtStopOnly || a.burst) {
			a.name += h.burst.Begin()
		}
		c.Step("%s", a.name)
		if a.run != nil {
			a.run()
		}
		if stopNow {
			break
		}
	}
	if !stopNow {
		h.burst.Off()
	}
	if c.Failed() {
		return
	}
	if h.finalChecks() {
		return
	}
	stopped = true
	h.stop(true)
}

// ---- virtual block subscribers (C19 end to end)

// nodeSub replays the events of one block subscription onto a chain that
// starts at the block it asked the backlog from.
type nodeSub struct {
	name  string
	base  uint32
	sub   *blockntfns.Subscription
	chain []wire.BlockHeader // chain[i] has height base+i
	n     int
}

func (h *nodeH) subscribe(name string, base uint32) {
	hd, err := h.cs.BlockHeaders.FetchHeaderByHeight(base)
	if err != nil {
		return
	}
	sub, err := h.cs.blockSubscriptionMgr.NewSubscription(base)
	if err != nil {
		// a height above the committed tip is refused
		h.c.Note("subscription %s from height %d refused: %v", name, base, err)
		return
	}
	h.subscribers = append(h.subscribers, &nodeSub{name: name, base: base, sub: sub, chain: []wire.BlockHeader{*hd}})
}

// drainSubs lets every subscriber take what is waiting for it and applies the
// replay rule of the statement.
func (h *nodeH) drainSubs() bool {
	c := h.c
	for {
		got := false
		for _, sb := range h.subscribers {
			for {
				var n blockntfns.BlockNtfn
				select {
				case n = <-sb.sub.Notifications:
				default:
				}
				if n == nil {
					break
				}
				got = true
				sb.n++
				tip := sb.chain[len(sb.chain)-1]
				tipHeight := sb.base + uint32(len(sb.chain)-1)
				hd := n.Header()
				switch ev := n.(type) {
				case *blockntfns.Connected:
					if ht := ev.Height(); ht <= tipHeight && ht >= sb.base && sb.chain[ht-sb.base].BlockHash() == hd.BlockHash() {
						continue // a block already held
					}
					if ev.Height() != tipHeight+1 || hd.PrevBlock != tip.BlockHash() {
						return c.Fail("C19", "C19:connected-event-does-not-extend-replayed-chain", "subscriber %s holds %s at height %d and receives connected(%s, height %d)", sb.name, h.f.label(tip.BlockHash()), tipHeight, h.f.label(hd.BlockHash()), ev.Height())
					}
					sb.chain = append(sb.chain, hd)
				case *blockntfns.Disconnected:
					if ev.Height() > tipHeight {
						// the header of a block whose filter header was
						// never committed (never announced as connected)
						// is removed: nothing the subscriber holds
						continue
					}
					if ev.Height() != tipHeight || hd.BlockHash() != tip.BlockHash() || len(sb.chain) < 2 {
						return c.Fail("C19", "C19:disconnected-event-not-for-replayed-tip", "subscriber %s holds %s at height %d and receives disconnected(%s, height %d)", sb.name, h.f.label(tip.BlockHash()), tipHeight, h.f.label(hd.BlockHash()), ev.Height())
					}
					sb.chain = sb.chain[:len(sb.chain)-1]
					nt := ev.ChainTip()
					if nt.BlockHash() != sb.chain[len(sb.chain)-1].BlockHash() {
						return c.Fail("C19", "C19:disconnected-event-wrong-new-tip", "subscriber %s: disconnected(%s) names %s as the tip afterwards, the replayed chain says %s", sb.name, h.f.label(hd.BlockHash()), h.f.label(nt.BlockHash()), h.f.label(sb.chain[len(sb.chain)-1].BlockHash()))
					}
				}
			}
		}
		if !got {
			break
		}
		verifbubble.Wait()
	}
	// with everything delivered the replayed chains equal the committed one
	_, ft, err := h.cs.RegFilterHeaders.ChainTip()
	if err != nil {
		return false
	}
	for _, sb := range h.subscribers {
		tipHeight := sb.base + uint32(len(sb.chain)-1)
		if tipHeight != ft {
			return c.Fail("C19", "C19:replayed-chain-differs-from-committed", "subscriber %s (from height %d, %d events) holds a chain up to height %d, the committed filter-header tip is %d", sb.name, sb.base, sb.n, tipHeight, ft)
		}
		// compare the top of the chain (everything at long chains would
		// be quadratic; below the fork point nothing ever changes)
		lo := sb.base
		if ff := uint32(h.f.forkFrom); ff > lo {
			lo = ff
		}
		for ht := lo; ht <= ft; ht++ {
			hd, err := h.cs.BlockHeaders.FetchHeaderByHeight(ht)
			if err != nil || hd.BlockHash() != sb.chain[ht-sb.base].BlockHash() {
				return c.Fail("C19", "C19:replayed-chain-differs-from-committed", "subscriber %s holds %s at height %d, the committed chain has %v there (%v)", sb.name, h.f.label(sb.chain[ht-sb.base].BlockHash()), ht, hd, err)
			}
		}
	}
	return false
}

// ---- API calls of the client's user (C13, C17)

func (h *nodeH) callsRunning() bool {
	for _, cl := range h.calls {
		if !cl.task.Done() {
			return true
		}
	}
	return false
}

// checkCalls inspects the calls that have returned; after Stop every call
// must have returned.
func (h *nodeH) checkCalls(afterStop bool) bool {
	for _, cl := range h.calls {
		if !cl.task.Done() {
			if afterStop {
				return h.c.Fail("C17", "C17:caller-left-blocked:"+strings.Fields(cl.name)[0], "%s was in flight when Stop was called and has not returned although Stop has", cl.name)
			}
			continue
		}
		if cl.check != nil {
			bad := cl.check(cl.task.Val, cl.task.Err)
			cl.check = nil
			if bad != "" {
				return h.c.Fail(h.oracle, h.oracle+":call-result:"+strings.Fields(cl.name)[0], "%s: %s", cl.name, bad)
			}
		}
	}
	return false
}

// rescanQuit2 is the (never closed before the checks) quit channel of the
// second rescan.
func (h *nodeH) rescanQuit2() chan struct{} {
	if h.rescanQ2 == nil {
		h.rescanQ2 = make(chan struct{})
	}
	return h.rescanQ2
}

// startRescan starts a rescan from genesis. In C17's runs this happens before
// any peer is connected, so that the rescan goes through every phase (waiting
// for the header chain to be current, catching up, following the tip) while
// Stop is offered at each quiescent point.
func (h *nodeH) startRescan() {
	f := h.f
	t2 := f.trunk[2]

	quit := make(chan struct{})
	h.rescanQuit = quit
	r := NewRescan(&RescanChainSource{ChainService: h.cs},
		StartBlock(&headerfs.BlockStamp{Height: 0, Hash: *f.params.GenesisHash}),
		WatchInputs(InputWithScript{OutPoint: wire.OutPoint{Index: 7}, PkScript: f.data[t2.Hash].Block.Transactions[1].TxOut[1].PkScript}),
		NotificationHandlers(rpcclient.NotificationHandlers{
			OnFilteredBlockConnected: func(int32, *wire.BlockHeader, []*btcutil.Tx) {},
		}),
		QuitChan(quit))
	errc := r.Start()
	h.launch("Rescan", func() (any, error) { return nil, <-errc }, nil)
	if os.Getenv("VFX_LENIENT") != "" {
		// race-detector pass (C18): a second rescan with the same watch
		// list walks the same blocks, which both get from the block cache
		r2 := NewRescan(&RescanChainSource{ChainService: h.cs},
			StartBlock(&headerfs.BlockStamp{Height: 0, Hash: *f.params.GenesisHash}),
			WatchInputs(InputWithScript{OutPoint: wire.OutPoint{Index: 7}, PkScript: f.data[t2.Hash].Block.Transactions[1].TxOut[1].PkScript}),
			NotificationHandlers(rpcclient.NotificationHandlers{
				OnFilteredBlockConnected: func(int32, *wire.BlockHeader, []*btcutil.Tx) {},
			}),
			QuitChan(quit))
		errc2 := r2.Start()
		h.launch("Rescan-2", func() (any, error) { return nil, <-errc2 }, nil)
	}
}

func (h *nodeH) launch(name string, f func() (any, error), check func(val any, err error) string) {
	h.calls = append(h.calls, &nodeCall{name: name, task: verifbubble.Go(name, f), check: check})
}

func (h *nodeH) callEvents(mode nodeMode) []nodeEv {
	f := h.f
	t2 := f.trunk[2]
	var evs []nodeEv
	slow := false
	for _, p := range h.peers {
		slow = slow || p.behaviour == "slow-handshake"
	}
	if mode.name == "C13" && slow {
		// the user bans the adversary's address: by default once the node
		// is idle, as a deviation at any earlier point - also in the
		// middle of that peer's handshake
		evs = append(evs, nodeEv{"the user bans the adversary's address", func() {
			for _, p := range h.peers {
				if p.name != "H" {
					if err := h.cs.BanPeer(p.addr, banman.ExceededBanThreshold); err != nil {
						h.c.Note("BanPeer: %v", err)
					}
					p.userBanned = true
					verifbubble.Wait()
					break
				}
			}
		}})
	}
	for _, p := range h.peers {
		if mode.name != "C13" || p.behaviour != "well-behaved-banned-by-user" {
			continue
		}
		p := p
		// the user bans a connected, well-behaved node, writing its IP
		// address in another textual form than the client uses for the
		// peer: the record is the same, so the connection has to go
		evs = append(evs, nodeEv{"the user bans " + p.name + "'s address, written as an IPv4-mapped IPv6 address", func() {
			host, port, err := net.SplitHostPort(p.addr)
			if err != nil {
				panic(verifeng.InfraError{Msg: err.Error()})
			}
			if err := h.cs.BanPeer("[::ffff:"+host+"]:"+port, banman.ExceededBanThreshold); err != nil {
				h.c.Note("BanPeer: %v", err)
			}
			p.userBanned = true
			verifbubble.Wait()
		}})
	}
	evs = append(evs, []nodeEv{
		{"GetBlock(T2) is called", func() {
			h.launch("GetBlock(T2)", func() (any, error) { return h.cs.GetBlock(t2.Hash) }, func(val any, err error) string {
				if err != nil {
					return ""
				}
				blk := val.(*btcutil.Block)
				if blk == nil || *blk.Hash() != t2.Hash || blk.MsgBlock().Transactions[1].TxHash() != f.data[t2.Hash].Block.Transactions[1].TxHash() {
					return "returned a block that is not T2"
				}
				return ""
			})
		}},
	}...)
	if mode.name == "C05" {
		evs = append(evs, nodeEv{"GetCFilter(T2) is called", func() {
			h.launch("GetCFilter(T2)", func() (any, error) { return h.cs.GetCFilter(t2.Hash, wire.GCSFilterRegular) }, func(val any, err error) string {
				if err != nil {
					return ""
				}
				flt, _ := val.(*gcs.Filter)
				if flt == nil {
					return "returned neither a filter nor an error"
				}
				fh, err := builder.GetFilterHash(flt)
				if err != nil {
					return err.Error()
				}
				// every filter header the client ever committed for T2
				// was the true one (unless a lone liar's value went in,
				// the C04 known finding), so the filter must be the true
				// filter of T2
				if h.poisoned == "" && fh != f.data[t2.Hash].FilterHash {
					return "returned a filter that does not hash to the filter hash committed for T2 (it is not T2's filter)"
				}
				return ""
			})
		}})
	}
	if mode.name != "C17" {
		return evs
	}
	if !cfMutexVisible() {
		// two callers of GetCFilter would hang the bubble
		h.c.Note("mtxCFilter is a sync.Mutex in this build: no concurrent filter callers")
		return evs
	}
	t3 := f.trunk[3]
	evs = append(evs,
		nodeEv{"GetCFilter(T3) is called", func() {
			// Asking for the filter of a block above the filter header
			// tip makes prepareCFiltersQuery compute a negative range
			// and allocate 4 GiB before it fails (an observation outside
			// the listed properties, see DESIGN.md); the caller here
			// asks for a block it has been told about by BestBlock.
			bb, err := h.cs.BestBlock()
			if err != nil || bb.Height < t3.Height {
				h.c.Note("GetCFilter skipped: BestBlock is below T3")
				return
			}
			h.launch("GetCFilter(T3)", func() (any, error) { return h.cs.GetCFilter(t3.Hash, wire.GCSFilterRegular) }, nil)
		}},
		nodeEv{"GetUtxo(output of T2, from T1) is called", func() {
			tx := f.data[t2.Hash].Block.Transactions[1]
			op := wire.OutPoint{Hash: tx.TxHash(), Index: 0}
			h.launch("GetUtxo(T2:tx1:0)", func() (any, error) {
				return h.cs.GetUtxo(
					WatchInputs(InputWithScript{OutPoint: op, PkScript: tx.TxOut[0].PkScript}),
					StartBlock(&headerfs.BlockStamp{Height: 1, Hash: f.trunk[1].Hash}),
				)
			}, nil)
		}},
		nodeEv{"SendTransaction is called", func() {
			tx := wire.NewMsgTx(2)
			tx.AddTxIn(wire.NewTxIn(&wire.OutPoint{Index: 3}, []byte{0x51}, nil))
			tx.AddTxOut(wire.NewTxOut(1000, []byte{0x51}))
			h.launch("SendTransaction", func() (any, error) { return nil, h.cs.SendTransaction(tx) }, nil)
		}},
		nodeEv{"a block subscription is registered and never read", func() {
			sub, err := (&RescanChainSource{ChainService: h.cs}).Subscribe(0)
			if err == nil {
				h.stalledSub = sub
			}
		}},
	)
	return evs
}

// ---- C15 at node level: SendTransaction through the Broadcaster and the
// real sendTransaction, against remotes that answer a transaction
// announcement with getdata (accept), getdata + reject, or nothing.

var c15Replies = []string{"accept", "invalid", "mempool", "confirmed", "silent", "accept-other-inv-type"}
var c15Later = []string{"accept", "mempool", "confirmed"}

// c15Verdict summarises what a set of replies means according to the
// statement: fail (every replying peer rejected, or the invalid share reaches
// the threshold), or accepted; and whether the peers say the transaction is
// confirmed. unclear marks ties between reject codes.
func c15Verdict(replies []string) (mayFail, mustSucceed, mempool, confirmed, unclear bool) {
	repliers, rejects, invalid := 0, 0, 0
	codes := map[string]int{}
	for _, r := range replies {
		if r == "silent" {
			continue
		}
		repliers++
		if r != "accept" {
			rejects++
			codes[r]++
		}
		if r == "invalid" {
			invalid++
		}
	}
	if repliers == 0 {
		return false, true, false, false, false
	}
	allRejected := rejects == repliers
	share := float32(invalid) / float32(repliers)
	mayFail = allRejected || share >= QueryInvalidTxThreshold
	mustSucceed = !mayFail
	if allRejected {
		best, n := "", 0
		for k, v := range codes {
			if v > n {
				best, n = k, v
			}
		}
		for k, v := range codes {
			if v == n && k != best {
				unclear = true
			}
		}
		mempool = best == "mempool" && !unclear
		confirmed = best == "confirmed" && !unclear
	}
	return
}

func (h *nodeH) c15Actual(phase int) []string {
	var out []string
	for _, p := range h.peers {
		r := p.txActual[phase]
		if r == "" {
			r = "silent"
		}
		out = append(out, r)
	}
	return out
}

func (h *nodeH) c15Invs() map[string]int {
	m := map[string]int{}
	for _, p := range h.peers {
		m[p.name] = p.txInvs
	}
	return m
}

func (h *nodeH) c15Script(grow func()) []nodeEv {
	c := h.c
	h.tx = wire.NewMsgTx(2)
	h.tx.AddTxIn(wire.NewTxIn(&wire.OutPoint{Index: 3}, []byte{0x51}, nil))
	h.tx.AddTxOut(wire.NewTxOut(1000, []byte{0x51}))
	var first, later []string
	for _, p := range h.peers {
		first = append(first, p.txReply[0])
		later = append(later, p.txReply[1])
	}
	accepted := false
	var mark map[string]int
	settle := nodeEv{"20 s pass", func() { time.Sleep(20 * time.Second) }}
	return []nodeEv{
		{"SendTransaction is called", func() {
			h.launch("SendTransaction", func() (any, error) { return nil, h.cs.SendTransaction(h.tx) }, func(_ any, err error) string {
				h.txReturned, h.txErr = true, err
				h.invsAtReturn = h.c15Invs()
				first = h.c15Actual(0)
				mayFail, mustSucceed, mempool, _, unclear := c15Verdict(first)
				accepted = err == nil
				switch {
				case err != nil && !mayFail:
					return fmt.Sprintf("failed with %v although the peers replied %v: not every replying peer rejected the transaction and the invalid share is below the threshold", err, first)
				case err != nil && mempool:
					return fmt.Sprintf("failed with %v although every replying peer said the transaction is already in its mempool (%v)", err, first)
				case err == nil && !mustSucceed && !mempool && !unclear:
					return fmt.Sprintf("succeeded although the peers replied %v", first)
				}
				return ""
			})
		}},
		settle,
		{"the honest chain grows by one block", func() {
			mark = h.c15Invs()
			h.txPhase = 1
			grow()
		}},
		settle,
		{"rebroadcast check", func() {
			now := h.c15Invs()
			for _, p := range h.peers {
				if h.liveConn(p) == nil {
					continue
				}
				switch {
				case accepted && now[p.name] == mark[p.name]:
					c.Fail("C15", "C15:accepted-tx-not-rebroadcast", "SendTransaction succeeded (replies %v) but the block event that followed did not make the client announce the transaction to %s again", first, p.name)
				case !accepted && h.txReturned && now[p.name] > h.invsAtReturn[p.name]:
					c.Fail("C15", "C15:rejected-tx-rebroadcast", "SendTransaction failed with %v but the transaction was announced to %s again afterwards", h.txErr, p.name)
				}
			}
		}},
		{"the honest chain grows by one block", func() {
			mark = h.c15Invs()
			grow()
		}},
		settle,
		{"second rebroadcast check", func() {
			if !accepted {
				return
			}
			later = h.c15Actual(1)
			_, _, _, confirmed, unclear := c15Verdict(later)
			if unclear {
				return
			}
			now := h.c15Invs()
			for _, p := range h.peers {
				if h.liveConn(p) == nil {
					continue
				}
				switch {
				case confirmed && now[p.name] > mark[p.name]:
					c.Fail("C15", "C15:confirmed-tx-rebroadcast", "every replying peer reported the transaction as confirmed during the first rebroadcast (%v), yet the next block event made the client announce it to %s again", later, p.name)
				case !confirmed && now[p.name] == mark[p.name]:
					c.Fail("C15", "C15:pending-tx-not-rebroadcast", "the transaction is still pending (rebroadcast replies %v) but the second block event did not make the client announce it to %s", later, p.name)
				}
			}
		}},
	}
}

// liesIn reports whether liar p's answer to q contains its false value.
func (h *nodeH) liesIn(p *nodePeer, q wire.Message) bool {
	switch m := q.(type) {
	case *wire.MsgGetCFHeaders:
		stop, ok := h.f.byHash[m.StopHash]
		return ok && int32(m.StartHeight) <= p.lieAt && p.lieAt <= stop.Height
	case *wire.MsgGetCFCheckpt:
		stop, ok := h.f.byHash[m.StopHash]
		if !ok {
			return false
		}
		last := stop.Height - stop.Height%wire.CFCheckptInterval
		return last > 0 && p.lieAt <= last
	}
	return false
}

// finalChecks applies the clauses that are judged at the end of the script.
func (h *nodeH) finalChecks() bool {
	c := h.c
	for _, p := range h.peers {
		switch p.behaviour {
		case "no-cf-service", "no-witness":
			if !p.versionSent {
				continue
			}
			if !h.cs.IsBanned(p.addr) {
				return c.Fail("C13", "C13:service-bits-not-banned", "%s (%s) advertised services %v in its version message and is not banned", p.name, p.addr, p.services())
			}
			if cn := h.liveConn(p); cn != nil && cn.ready {
				return c.Fail("C13", "C13:service-bits-not-disconnected", "%s (%s) advertised services %v and its connection is still open", p.name, p.addr, p.services())
			}
		case "false-cfheaders", "false-cfheaders-true-filter":
			if h.oracle != "C03" || h.poisoned != "" || h.cutShort {
				continue
			}
			for key, who := range h.answered {
				if who[p.name+":lied"] && who["H"] && !h.cs.IsBanned(p.addr) {
					return c.Fail("C03", "C03:liar-not-banned", "%s answered %s with its false filter header (false from height %d on) next to the honest remote's answer and is not banned", p.name, key, p.lieAt)
				}
			}
		case "honest":
			// (a second honest node that dropped its connection in the
			// middle of a resolution has not "answered correctly")
			if h.oracle == "C03" && h.poisoned == "" && !p.dropped && h.cs.IsBanned(p.addr) {
				return c.Fail("C03", "C03:honest-peer-banned", "the honest remote %s (%s) is banned", p.name, p.addr)
			}
		case "bad-block", "bad-witness":
			if p.servedBadBlock && !h.cs.IsBanned(p.addr) {
				return c.Fail("C13", "C13:invalid-block-not-banned", "%s (%s) answered the client's getdata with a block whose transactions do not match its header, in turn, and is not banned", p.name, p.addr)
			}
		}
	}
	return false
}

// stop stops the node; with check it applies the shutdown clauses.
func (h *nodeH) stop(check bool) {
	c := h.c
	tk := h.stopTask
	if tk == nil {
		tk = verifbubble.Go("Stop", func() (any, error) { return nil, h.cs.Stop() })
	}
	releaseDials := func() {
		h.mu.Lock()
		ds := h.dials
		h.dials = nil
		h.mu.Unlock()
		for _, d := range ds {
			d.done <- nil
		}
	}
	waited := 0
	for ; waited < 600 && !tk.Done(); waited += 5 {
		verifbubble.Wait()
		h.burst.End()
		if tk.Done() {
			break
		}
		// a remote that has not answered a dial refuses it now
		releaseDials()
		time.Sleep(5 * time.Second)
	}
	verifbubble.Wait()
	if !tk.Done() {
		if check || h.oracle == "C17" {
			c.Fail("C17", "C17:stop-blocks", "ChainService.Stop has not returned after %d virtual seconds", waited)
		}
		return
	}
	if waited > 0 {
		c.Note("Stop returned after %d virtual seconds", waited)
	}
	if h.oracle == "C17" && !c.Failed() {
		// every call that was in flight, the rescan included, must have
		// returned by itself: the user has not closed the rescan's own
		// quit channel
		if h.checkCalls(true) {
			if h.rescanQuit != nil {
				close(h.rescanQuit)
			}
			if h.rescanQ2 != nil {
				close(h.rescanQ2)
			}
			return
		}
	}
	if h.rescanQuit != nil {
		close(h.rescanQuit)
	}
	if h.rescanQ2 != nil {
		close(h.rescanQ2)
	}
	if h.stalledSub != nil {
		h.stalledSub.Cancel()
	}
	for _, sb := range h.subscribers {
		sb.sub.Cancel()
	}
	for _, p := range h.peers {
		if p.conn != nil {
			p.conn.c.Close()
		}
	}
	releaseDials()
	verifbubble.Wait()
	if h.oracle == "C17" && !c.Failed() {
		h.checkPoison()
		h.reopen()
	}
}

// reopen opens the stores again with the real constructors and applies the
// structural clauses of C01 and C03 to what they hold.
func (h *nodeH) reopen() {
	c := h.c
	bs, err := headerfs.NewBlockHeaderStore(h.env.Dir, h.env.DB, h.f.params)
	if err != nil {
		c.Fail("C17", "C17:reopen-fails", "NewBlockHeaderStore after Stop: %v", err)
		return
	}
	fs, err := headerfs.NewFilterHeaderStore(h.env.Dir, h.env.DB, headerfs.RegularFilter, h.f.params, nil)
	if err != nil {
		c.Fail("C17", "C17:reopen-fails", "NewFilterHeaderStore after Stop: %v", err)
		return
	}
	_, bt, err := bs.ChainTip()
	if err != nil {
		c.Fail("C17", "C17:reopen-fails", "block ChainTip after reopen: %v", err)
		return
	}
	_, ft, err := fs.ChainTip()
	if err != nil {
		c.Fail("C17", "C17:reopen-fails", "filter ChainTip after reopen: %v", err)
		return
	}
	if ft > bt {
		c.Fail("C17", "C17:reopened-filter-headers-ahead", "after Stop and reopen the filter header tip (%d) is ahead of the block header tip (%d)", ft, bt)
		return
	}
	var prev *verifchain.Node
	for ht := uint32(0); ht <= bt; ht++ {
		hd, err := bs.FetchHeaderByHeight(ht)
		if err != nil {
			c.Fail("C17", "C17:reopened-chain-broken", "after Stop and reopen the block header at height %d (tip %d) cannot be read: %v", ht, bt, err)
			return
		}
		n, ok := h.f.byHash[hd.BlockHash()]
		if !ok || n.Invalid != "" || n.Height != int32(ht) || (prev != nil && n.Parent != prev) {
			c.Fail("C17", "C17:reopened-chain-broken", "after Stop and reopen the block header at height %d is %s, which does not continue a valid chain from genesis", ht, h.f.label(hd.BlockHash()))
			return
		}
		prev = n
		if ht <= ft && ht > 0 && h.poisoned == "" {
			fh, err := fs.FetchHeaderByHeight(ht)
			if err != nil || *fh != h.truthFH(n) {
				c.Fail("C17", "C17:reopened-filter-header-wrong", "after Stop and reopen the filter header at height %d does not belong to block %s (%v)", ht, n.Label, err)
				return
			}
		}
	}
}

func nodeBody(t *testing.T, mode nodeMode, nadv int) func(c *verifeng.Chooser) {
	f := getNodeFixture(mode.long, mode.gap)
	return func(c *verifeng.Chooser) {
		var env *verifhfs.Env
		out := verifbubble.Run(t, func() {
			env = verifhfs.NewEnv(c)
			env.Quiet = true
			env.MemFiles = true
			nodeRun(c, f, env, mode, nadv)
		})
		if env != nil {
			env.Cleanup()
		}
		switch {
		case out.Panic != nil:
			if ie, ok := out.Panic.(verifeng.InfraError); ok {
				panic(ie)
			}
			c.Fail("panic", "panic:"+firstWords(fmt.Sprint(out.Panic)), "%v", out.Panic)
		case out.Deadlock != "":
			c.Fail("stuck", "controller-deadlock", "%s", out.Deadlock)
		case out.Hang:
			c.Fail("hang", "hang", "the bubble never became quiescent")
		case out.Leak != "" && !c.Failed():
			c.Fail("C17", "C17:goroutines-left-after-stop", "%s", out.Leak)
		}
	}
}

type nodeCfg struct{ budget, nadv int }

func runNode(t *testing.T, harness, modeName string) {
	tier := verifeng.Tier()
	mode := nodeModes[modeName]
	cfgs := []nodeCfg{{2, 1}}
	if tier == "thorough" {
		cfgs = []nodeCfg{{3, 1}, {2, 2}}
	}
	if modeName == "C03L" {
		// the second configuration is the default schedule for every
		// pair of adversaries (two liars, a liar next to a peer with a
		// shorter checkpoint list, ...)
		cfgs = []nodeCfg{{1, 1}, {0, 2}}
		if tier == "thorough" {
			cfgs = []nodeCfg{{2, 1}, {1, 2}}
		}
	}
	if modeName == "C13" {
		// second configuration: the default schedule for every pair of
		// adversaries, which then share one IP address
		cfgs = []nodeCfg{{2, 1}, {0, 2}}
		if tier == "thorough" {
			cfgs = []nodeCfg{{3, 1}, {2, 2}}
		}
	}
	if modeName == "C13P" {
		// one preemption, every pair of adversaries (on one host)
		cfgs = []nodeCfg{{1, 2}}
		if tier == "thorough" {
			cfgs = []nodeCfg{{1, 1}, {2, 2}}
		}
	}
	if modeName == "C17L" {
		// Stop (alone, or overlapping the next answer in either
		// order) is the only deviation
		cfgs = []nodeCfg{{1, 1}}
	}
	if modeName == "C04L" || modeName == "C19L" {
		cfgs = []nodeCfg{{1, 1}}
		if tier == "thorough" {
			cfgs = []nodeCfg{{2, 1}, {1, 2}}
		}
	}
	if modeName == "C04D" {
		// one deviation: a stimulus out of turn or one scheduler delay
		cfgs = []nodeCfg{{1, 1}}
		if tier == "thorough" {
			cfgs = []nodeCfg{{1, 1}, {1, 2}}
		}
	}
	if modeName == "C17" {
		// Stop is one of the deviations
		cfgs = []nodeCfg{{1, 1}}
		if tier == "thorough" {
			cfgs = []nodeCfg{{2, 1}, {1, 2}}
		}
	}
	if rp := os.Getenv("VFX_REPLAY"); rp != "" {
		v, err := verifeng.LoadReplay(rp)
		if err != nil {
			t.Fatal(err)
		}
		var cf nodeCfg
		fmt.Sscanf(v.Config, "deviations=%d adversaries=%d", &cf.budget, &cf.nadv)
		e := verifeng.FromEnv(v.Harness, v.Config)
		_, x, err := e.ReplayFile(rp, nodeBody(t, mode, cf.nadv))
		if err != nil {
			t.Fatal(err)
		}
		if x.Viol != nil {
			fmt.Printf("REPLAY-VIOLATION clause=%s sig=%s\n%s\n", x.Viol.Clause, x.Viol.Sig, x.Viol.Detail)
		} else {
			fmt.Println("REPLAY-OK no violation")
		}
		return
	}
	for _, cf := range cfgs {
		e := verifeng.FromEnv(harness, fmt.Sprintf("deviations=%d adversaries=%d", cf.budget, cf.nadv))
		e.MaxDev = cf.budget
		e.ShardDepth = 4
		e.MaxViol = 12
		if os.Getenv("VFX_AUDITALL") != "" {
			e.AuditEvery = 1
		}
		e.Run(nodeBody(t, mode, cf.nadv))
		if err := verifeng.AppendResult(&e.Res); err != nil {
			t.Fatal(err)
		}
	}
}

func TestVFXC04(t *testing.T)  { runNode(t, "C04-node", "C04") }
func TestVFXC04D(t *testing.T) { runNode(t, "C04-node-delays", "C04D") }
func TestVFXC13N(t *testing.T) { runNode(t, "C13-node", "C13") }
func TestVFXC13P(t *testing.T) { runNode(t, "C13-node-preemptions", "C13P") }
func TestVFXC17(t *testing.T)  { runNode(t, "C17-node", "C17") }
func TestVFXC17L(t *testing.T) { runNode(t, "C17-long-chain", "C17L") }
func TestVFXC15N(t *testing.T) { runNode(t, "C15-node", "C15") }
func TestVFXC03L(t *testing.T) { runNode(t, "C03-long-chain", "C03L") }
func TestVFXC04L(t *testing.T) { runNode(t, "C04-long-chain", "C04L") }
func TestVFXC19N(t *testing.T) { runNode(t, "C19-node", "C19N") }
func TestVFXC02N(t *testing.T) { runNode(t, "C02-node", "C02N") }
func TestVFXC05N(t *testing.T) { runNode(t, "C05-node", "C05N") }
func TestVFXC19L(t *testing.T) { runNode(t, "C19-long-chain", "C19L") }

var _ = banman.NoCompactFilters
var _ = errors.New
var _ = sort.Ints

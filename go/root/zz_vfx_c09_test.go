package neutrino

// C09 — rescan callbacks form a consistent chain walk and miss no relevant
// transaction. A real Rescan (NewRescan / Start / Update) in a synctest
// bubble, over a harness ChainSource backed by a mutable block tree with real
// transactions and BIP158 filters; block events reach the rescan through a
// REAL blockntfns.SubscriptionManager fed by the harness, so the backlog
// semantics are the production ones. One stimulus per quiescent point.

import (
	"errors"
	"fmt"
	"os"
	"strings"
	"testing"
	"time"

	"github.com/btcsuite/btcd/address/v2"
	"github.com/btcsuite/btcd/btcutil/v2"
	"github.com/btcsuite/btcd/btcutil/v2/gcs"
	"github.com/btcsuite/btcd/btcutil/v2/gcs/builder"
	"github.com/btcsuite/btcd/chaincfg/v2"
	"github.com/btcsuite/btcd/chainhash/v2"
	"github.com/btcsuite/btcd/rpcclient"
	"github.com/btcsuite/btcd/txscript/v2"
	"github.com/btcsuite/btcd/wire/v2"
	"github.com/lightninglabs/neutrino/blockntfns"
	"github.com/lightninglabs/neutrino/headerfs"
	"github.com/lightninglabs/neutrino/internal/verifbubble"
	"github.com/lightninglabs/neutrino/internal/verifeng"
)

type c09block struct {
	label  string
	height int32
	parent *c09block
	blk    *wire.MsgBlock
	hash   chainhash.Hash
	filter *gcs.Filter
}

type c09fix struct {
	params  *chaincfg.Params
	genesis *c09block
	main    []*c09block // main[i] has height i (0 = genesis)
	fork    []*c09block // fork[i] has height i+2, parent of fork[0] is main[1]
	addrX   address.Address
	addrY   address.Address
	scriptX []byte
	scriptY []byte
	preOut  wire.OutPoint // an outpoint watched from the start (script Z)
	scriptZ []byte
	byHash  map[chainhash.Hash]*c09block
}

var c09fixture *c09fix

func getC09Fixture() *c09fix {
	if c09fixture != nil {
		return c09fixture
	}
	p := chaincfg.RegressionNetParams
	f := &c09fix{params: &p, byHash: map[chainhash.Hash]*c09block{}}
	mkAddr := func(b byte) (address.Address, []byte) {
		h := make([]byte, 20)
		for i := range h {
			h[i] = b
		}
		a, err := address.NewAddressWitnessPubKeyHash(h, &p)
		if err != nil {
			panic(err)
		}
		s, err := txscript.PayToAddrScript(a)
		if err != nil {
			panic(err)
		}
		return a, s
	}
	f.addrX, f.scriptX = mkAddr(0x11)
	f.addrY, f.scriptY = mkAddr(0x22)
	_, f.scriptZ = mkAddr(0x33)
	f.preOut = wire.OutPoint{Index: 5}
	f.preOut.Hash[0] = 0xab

	other := func(b byte) []byte { _, s := mkAddr(0x80 + b); return s }
	tx := func(salt byte, ins []wire.OutPoint, outs ...[]byte) *wire.MsgTx {
		t := wire.NewMsgTx(2)
		for _, in := range ins {
			in := in
			t.AddTxIn(wire.NewTxIn(&in, []byte{salt}, nil))
		}
		for i, s := range outs {
			t.AddTxOut(wire.NewTxOut(int64(5000+i)+int64(salt), s))
		}
		return t
	}
	rnd := func(b byte) wire.OutPoint {
		var h chainhash.Hash
		h[0], h[1] = b, 0xcd
		return wire.OutPoint{Hash: h, Index: 0}
	}
	scriptOf := map[wire.OutPoint][]byte{f.preOut: f.scriptZ}
	mkBlock := func(label string, parent *c09block, salt byte, txs ...*wire.MsgTx) *c09block {
		height := int32(0)
		var prev chainhash.Hash
		ts := time.Unix(1700000000, 0)
		if parent != nil {
			height = parent.height + 1
			prev = parent.hash
			ts = parent.blk.Header.Timestamp.Add(10 * time.Minute)
		}
		cb := tx(salt, []wire.OutPoint{{Index: 0xffffffff}}, other(salt))
		blk := &wire.MsgBlock{Header: wire.BlockHeader{Version: 1, PrevBlock: prev, Timestamp: ts, Nonce: uint32(salt)}}
		blk.Transactions = append([]*wire.MsgTx{cb}, txs...)
		var prevScripts [][]byte
		for _, t := range txs {
			for _, in := range t.TxIn {
				if s, ok := scriptOf[in.PreviousOutPoint]; ok {
					prevScripts = append(prevScripts, s)
				}
			}
			for i, o := range t.TxOut {
				scriptOf[wire.OutPoint{Hash: t.TxHash(), Index: uint32(i)}] = o.PkScript
			}
		}
		b := &c09block{label: label, height: height, parent: parent, blk: blk, hash: blk.BlockHash()}
		if parent == nil {
			b.blk = p.GenesisBlock
			b.hash = *p.GenesisHash
		}
		flt, err := builder.BuildBasicFilter(b.blk, prevScripts)
		if err != nil {
			panic(err)
		}
		b.filter = flt
		f.byHash[b.hash] = b
		return b
	}
	g := mkBlock("G", nil, 0)
	f.genesis = g
	// main chain
	t1 := tx(10, []wire.OutPoint{rnd(1)}, f.scriptX, f.scriptY)             // pays X and Y
	t2 := tx(11, []wire.OutPoint{{Hash: t1.TxHash(), Index: 1}}, other(40)) // spends t1:1 (Y)
	t3 := tx(12, []wire.OutPoint{{Hash: t1.TxHash(), Index: 0}}, other(41)) // spends t1:0 (X)
	t4 := tx(13, []wire.OutPoint{f.preOut}, other(42))                      // spends the pre-watched outpoint
	m1 := mkBlock("M1", g, 1)
	m2 := mkBlock("M2", m1, 2, t1)
	m3 := mkBlock("M3", m2, 3, t2)
	m4 := mkBlock("M4", m3, 4, t3, t4)
	// received and spent in one block: t5 pays X, t6 (later in the same
	// block, relevant for no other reason) spends that output
	t5 := tx(14, []wire.OutPoint{rnd(3)}, f.scriptX)
	t6 := tx(15, []wire.OutPoint{{Hash: t5.TxHash(), Index: 0}}, other(44))
	m5 := mkBlock("M5", m4, 5, t5, t6)
	m6 := mkBlock("M6", m5, 6) // reserved for the wind-down
	f.main = []*c09block{g, m1, m2, m3, m4, m5, m6}
	// fork from M1
	u1 := tx(20, []wire.OutPoint{rnd(2)}, f.scriptX) // pays X in another tx
	f2 := mkBlock("F2", m1, 22)
	f3 := mkBlock("F3", f2, 23, u1)
	f4 := mkBlock("F4", f3, 24, tx(21, []wire.OutPoint{{Hash: u1.TxHash(), Index: 0}}, other(43)))
	f5 := mkBlock("F5", f4, 25)
	f6 := mkBlock("F6", f5, 26) // reserved for the wind-down
	f.fork = []*c09block{f2, f3, f4, f5, f6}
	c09fixture = f
	return f
}

// ---- the chain source

const (
	c09GateNone = iota
	c09GateHeaderByHeight
	c09GateFetch
	c09GateBestBlock
)

type c09chain struct {
	f       *c09fix
	best    []*c09block // current best chain by height
	src     chan blockntfns.BlockNtfn
	subs    *blockntfns.SubscriptionManager
	failFlt int // number of upcoming GetCFilter calls that fail
	failBlk int
	current bool

	// a gate parks the rescan goroutine inside one kind of chain query
	// until the controller lets it answer; the answer is computed from the
	// chain as it is at that moment.
	gateKind int
	gateOn   bool
	waiting  int
	release  chan struct{}
}

func (c *c09chain) gate(kind int) {
	if !c.gateOn || c.gateKind != kind {
		return
	}
	c.waiting++
	<-c.release
	c.waiting--
}

func (c *c09chain) ChainParams() chaincfg.Params { return *c.f.params }
func (c *c09chain) BestBlock() (*headerfs.BlockStamp, error) {
	c.gate(c09GateBestBlock)
	b := c.best[len(c.best)-1]
	return &headerfs.BlockStamp{Height: b.height, Hash: b.hash, Timestamp: b.blk.Header.Timestamp}, nil
}
func (c *c09chain) GetBlockHeaderByHeight(h uint32) (*wire.BlockHeader, error) {
	c.gate(c09GateHeaderByHeight)
	if int(h) >= len(c.best) {
		return nil, errors.New("height above tip")
	}
	hd := c.best[h].blk.Header
	return &hd, nil
}
func (c *c09chain) onBest(hash chainhash.Hash) *c09block {
	for _, b := range c.best {
		if b.hash == hash {
			return b
		}
	}
	return nil
}
func (c *c09chain) GetBlockHeader(hash *chainhash.Hash) (*wire.BlockHeader, uint32, error) {
	b := c.onBest(*hash)
	if b == nil {
		return nil, 0, headerfs.ErrHashNotFound
	}
	hd := b.blk.Header
	return &hd, uint32(b.height), nil
}
func (c *c09chain) GetBlock(hash chainhash.Hash, _ ...QueryOption) (*btcutil.Block, error) {
	c.gate(c09GateFetch)
	if c.failBlk > 0 {
		c.failBlk--
		return nil, errors.New("block fetch failed")
	}
	b, ok := c.f.byHash[hash]
	if !ok {
		return nil, errors.New("unknown block")
	}
	ub := btcutil.NewBlock(b.blk)
	ub.SetHeight(b.height)
	return ub, nil
}
func (c *c09chain) GetFilterHeaderByHeight(h uint32) (*chainhash.Hash, error) {
	if int(h) >= len(c.best) {
		return nil, errors.New("no filter header")
	}
	var fh chainhash.Hash
	fh[0] = byte(h)
	return &fh, nil
}
func (c *c09chain) GetCFilter(hash chainhash.Hash, _ wire.FilterType, _ ...QueryOption) (*gcs.Filter, error) {
	c.gate(c09GateFetch)
	if c.failFlt > 0 {
		c.failFlt--
		return nil, errors.New("filter fetch failed")
	}
	b := c.onBest(hash)
	if b == nil {
		return nil, headerfs.ErrHashNotFound
	}
	return b.filter, nil
}
func (c *c09chain) Subscribe(bestHeight uint32) (*blockntfns.Subscription, error) {
	return c.subs.NewSubscription(bestHeight)
}
func (c *c09chain) IsCurrent() bool { return c.current }

// NotificationSource for the real SubscriptionManager
func (c *c09chain) Notifications() <-chan blockntfns.BlockNtfn { return c.src }
func (c *c09chain) NotificationsSinceHeight(h uint32) ([]blockntfns.BlockNtfn, uint32, error) {
	tip := uint32(len(c.best) - 1)
	if h == 0 || h == tip {
		return nil, tip, nil
	}
	if h > tip {
		return nil, 0, fmt.Errorf("height %d above tip %d", h, tip)
	}
	var out []blockntfns.BlockNtfn
	for i := h + 1; i <= tip; i++ {
		out = append(out, blockntfns.NewBlockConnected(c.best[i].blk.Header, i))
	}
	return out, tip, nil
}

// ---- reference

// c09ref is one watch set, grown exactly as the statement says (outputs
// paying a watched address become watched outpoints).
type c09ref struct {
	scripts [][]byte
	inputs  map[wire.OutPoint]bool
}

func newC09Ref() *c09ref { return &c09ref{inputs: map[wire.OutPoint]bool{}} }

func (r *c09ref) relevant(b *c09block) []string {
	var out []string
	for _, tx := range b.blk.Transactions {
		rel := false
		for _, in := range tx.TxIn {
			if r.inputs[in.PreviousOutPoint] {
				rel = true
			}
		}
		for i, o := range tx.TxOut {
			for _, s := range r.scripts {
				if string(s) == string(o.PkScript) {
					rel = true
					r.inputs[wire.OutPoint{Hash: tx.TxHash(), Index: uint32(i)}] = true
				}
			}
		}
		if rel {
			out = append(out, tx.TxHash().String()[:8])
		}
	}
	return out
}

type c09cb struct {
	connected bool
	height    int32
	hash      chainhash.Hash
	prev      chainhash.Hash
	txs       []string
	onBest    bool // the block was on the best chain when it was delivered
}

type c09update struct {
	// rewind is the height the update rewinds to (-1: none); from is the
	// length of the callback log when the call was made
	rewind, from int
	name   string
	apply func(r *c09ref)
	task  *verifbubble.Task
}

func c09Body(t *testing.T, depth int) func(c *verifeng.Chooser) {
	f := getC09Fixture()
	return func(c *verifeng.Chooser) {
		out := verifbubble.Run(t, func() { c09Run(c, f, depth) })
		switch {
		case out.Panic != nil:
			if ie, ok := out.Panic.(verifeng.InfraError); ok {
				panic(ie)
			}
			c.Fail("panic", "panic:"+firstWords(fmt.Sprint(out.Panic)), "%v", out.Panic)
		case out.Deadlock != "":
			c.Fail("stuck", "controller-deadlock", "%s", out.Deadlock)
		case out.Hang:
			c.Fail("hang", "hang", "the bubble never became quiescent")
		case out.Leak != "" && !c.Failed():
			c.Fail("leak", "goroutines-left-after-quit", "%s", out.Leak)
		}
	}
}

func c09Run(c *verifeng.Chooser, f *c09fix, depth int) {
	ch := &c09chain{f: f, src: make(chan blockntfns.BlockNtfn), release: make(chan struct{})}
	startLen := []int{1, 4}[c.ChooseFree(2, "chain-at-start")] // genesis only / G..M3
	ch.best = append(ch.best, f.main[:startLen]...)
	ch.gateKind = c.ChooseFree(4, "gate")
	ch.gateOn = ch.gateKind != c09GateNone
	ch.current = true
	if ch.gateKind == c09GateNone {
		ch.current = c.ChooseFree(2, "header-chain-current-at-start") == 0
	}
	ch.subs = blockntfns.NewSubscriptionManager(ch)
	ch.subs.Start()

	// scenario. must holds the items of every Update that had returned
	// before the current quiescent interval began, may additionally those
	// of updates that were in flight during it: a block connected while an
	// Update is in flight may be matched against either list.
	must, may := newC09Ref(), newC09Ref()
	both := func(f func(r *c09ref)) { f(must); f(may) }
	var opts []RescanOption
	watch := c.ChooseFree(3, "watch") // 0: address X from the start, 1: nothing (added later), 2: X + pre-watched outpoint
	if watch != 1 {
		opts = append(opts, WatchAddrs(f.addrX))
		both(func(r *c09ref) { r.scripts = append(r.scripts, f.scriptX) })
	}
	if watch == 2 {
		opts = append(opts, WatchInputs(InputWithScript{OutPoint: f.preOut, PkScript: f.scriptZ}))
		both(func(r *c09ref) { r.inputs[f.preOut] = true })
	}
	startAt := 0
	if startLen == 4 && c.ChooseFree(2, "start-block") == 1 {
		startAt = 1
	}
	startBlock := f.main[startAt]
	opts = append(opts, StartBlock(&headerfs.BlockStamp{Height: startBlock.height, Hash: startBlock.hash}))
	var startTime time.Time
	if ch.gateKind == c09GateNone && c.ChooseFree(2, "start-time") == 1 {
		// between M2 and M3: M2's payment need not be delivered
		startTime = f.main[2].blk.Header.Timestamp.Add(time.Minute)
		opts = append(opts, StartTime(startTime))
	}
	quit := make(chan struct{})
	opts = append(opts, QuitChan(quit))

	var log []c09cb
	opts = append(opts, NotificationHandlers(rpcclient.NotificationHandlers{
		OnFilteredBlockConnected: func(height int32, header *wire.BlockHeader, txs []*btcutil.Tx) {
			cb := c09cb{connected: true, height: height, hash: header.BlockHash(), prev: header.PrevBlock}
			cb.onBest = ch.onBest(cb.hash) != nil
			for _, tx := range txs {
				cb.txs = append(cb.txs, tx.Hash().String()[:8])
			}
			log = append(log, cb)
		},
		OnFilteredBlockDisconnected: func(height int32, header *wire.BlockHeader) {
			log = append(log, c09cb{height: height, hash: header.BlockHash(), prev: header.PrevBlock})
		},
	}))
	rescan := NewRescan(ch, opts...)
	errChan := rescan.Start()

	// ---- oracle state
	cursor := startBlock
	judged := 0
	label := func(h chainhash.Hash) string {
		if b, ok := f.byHash[h]; ok {
			return b.label
		}
		return "?" + h.String()[:6]
	}
	has := func(l []string, x string) bool {
		for _, y := range l {
			if y == x {
				return true
			}
		}
		return false
	}
	// a rewind that an Update call has accepted is owed: from the position
	// the rescan had when the call returned, the walk has to go back to the
	// rewind height (or be there already)
	type c09owe struct {
		h, from int
		name    string
		ok      bool
	}
	var owed []*c09owe
	var hist []int // hist[i]: height of the current block before callback i
	noteCursor := func(idx int) {
		if idx == len(hist) {
			hist = append(hist, int(cursor.height))
		} else if idx < len(hist) {
			hist[idx] = int(cursor.height)
		}
		for _, o := range owed {
			if !o.ok && idx >= o.from && int(cursor.height) <= o.h {
				o.ok = true
			}
		}
	}
	judge := func() bool {
		defer func() { noteCursor(judged) }()
		for ; judged < len(log); judged++ {
			noteCursor(judged)
			cb := log[judged]
			b, ok := f.byHash[cb.hash]
			if !ok {
				return c.Fail("C09", "C09:unknown-block", "callback for an unknown block %v", cb.hash)
			}
			if cb.connected {
				if b.parent != cursor || cb.height != cursor.height+1 {
					return c.Fail("C09", "C09:connected-not-child-of-current",
						"OnFilteredBlockConnected(%s, height %d) but the block the caller was last told is current is %s (height %d)",
						b.label, cb.height, cursor.label, cursor.height)
				}
				cursor = b
				// blocks before the start time are outside the rescan:
				// nothing in them is delivered or tracked
				var want []string
				if b.blk.Header.Timestamp.After(startTime) {
					want = must.relevant(b)
					may.relevant(b)
				}
				// a block that had already left the best chain when it was
				// delivered is about to be disconnected again; only the
				// walk clauses apply to it
				for _, w := range want {
					if cb.onBest && !has(cb.txs, w) {
						return c.Fail("C09", "C09:relevant-tx-missing",
							"block %s was delivered with transactions %v, the watch list (as grown so far) makes %v relevant", b.label, cb.txs, want)
					}
				}
			} else {
				if b != cursor {
					return c.Fail("C09", "C09:disconnected-not-current",
						"OnFilteredBlockDisconnected(%s) but the current block is %s", b.label, cursor.label)
				}
				cursor = b.parent
			}
		}
		return false
	}

	emit := func(n blockntfns.BlockNtfn) bool {
		tk := verifbubble.Go("emit", func() (any, error) { ch.src <- n; return nil, nil })
		verifbubble.Wait()
		if !tk.Done() {
			c.Fail("stuck", "subscription-manager-not-reading", "the subscription manager does not take a chain event although every goroutine is idle")
			return false
		}
		return true
	}
	onFork := false
	extend := func() bool {
		tipH := len(ch.best) - 1
		var nb *c09block
		if !onFork {
			nb = f.main[tipH+1]
		} else {
			nb = f.fork[tipH-1]
		}
		ch.best = append(ch.best, nb)
		return emit(blockntfns.NewBlockConnected(nb.blk.Header, uint32(nb.height)))
	}
	canExtend := func(reserve int) bool {
		tipH := len(ch.best) - 1
		if !onFork {
			return tipH+1 < len(f.main)-reserve
		}
		return tipH-1 < len(f.fork)-reserve
	}
	disconnectToM1 := func() bool {
		// the first half of a reorganisation: the main-chain blocks above
		// M1 are disconnected, highest first; the fork's blocks then arrive
		// as ordinary extensions
		for len(ch.best)-1 > 1 {
			b := ch.best[len(ch.best)-1]
			ch.best = ch.best[:len(ch.best)-1]
			if !emit(blockntfns.NewBlockDisconnected(b.blk.Header, uint32(b.height), ch.best[len(ch.best)-1].blk.Header)) {
				return false
			}
		}
		onFork = true
		return true
	}
	reorgToFork := func() bool {
		// a whole reorganisation in one go: disconnect down to M1, then
		// connect the fork up to one more block than was removed
		removed := len(ch.best) - 2
		if !disconnectToM1() {
			return false
		}
		for i := 0; i <= removed && canExtend(1); i++ {
			if !extend() {
				return false
			}
		}
		return true
	}
	updates := 0
	advances := 0
	done := false
	poll := func() bool {
		select {
		case err := <-errChan:
			done = true
			c.Note("rescan ended: %v", err)
		default:
		}
		return done
	}
	var inflight []*c09update
	settle := func() {
		// updates whose call has returned become binding for blocks
		// connected from now on
		keep := inflight[:0]
		for _, u := range inflight {
			if u.task.Done() {
				u.apply(must)
				if u.rewind >= 0 && u.task.Err == nil {
					o := &c09owe{h: u.rewind, from: u.from, name: u.name}
					// callbacks between the call and now have been judged
					// already
					for i := o.from; i < len(hist); i++ {
						o.ok = o.ok || hist[i] <= o.h
					}
					owed = append(owed, o)
				}
			} else {
				keep = append(keep, u)
			}
		}
		inflight = keep
	}

	// the order inside a burst as a further dimension (DESIGN 3.7)
	var burst *verifbubble.Burst
	if vfxInBurst {
		burst = verifbubble.NewBurst(c)
	}
	for d := 0; d < depth && !c.Failed(); d++ {
		verifbubble.Wait()
		burst.End()
		if sig, detail := verifbubble.LockOrder(); sig != "" {
			c.Fail("C09", "lock-order-inversion:"+sig, "%s", detail)
			return
		}
		if judge() {
			return
		}
		settle()
		if poll() {
			break
		}
		type ev struct {
			name string
			run  func() bool
		}
		var menu []ev
		if ch.waiting > 0 {
			menu = append(menu, ev{"the rescan's pending chain query answers", func() bool { ch.release <- struct{}{}; return true }})
			menu = append(menu, ev{"from now on chain queries answer at once", func() bool { ch.gateOn = false; ch.release <- struct{}{}; return true }})
		}
		tipH := len(ch.best) - 1
		if canExtend(1) {
			menu = append(menu, ev{"chain extends by one block", extend})
		}
		if !onFork && tipH >= 2 {
			menu = append(menu, ev{fmt.Sprintf("reorganisation: %d block(s) replaced by the fork from M1", tipH-1), reorgToFork})
			menu = append(menu, ev{fmt.Sprintf("reorganisation begins: %d block(s) above M1 disconnected", tipH-1), disconnectToM1})
		}
		if !ch.current {
			menu = append(menu, ev{"the header chain becomes current", func() bool { ch.current = true; return true }})
		}
		if ch.failFlt < 2 {
			menu = append(menu, ev{"next filter fetch fails", func() bool { ch.failFlt++; return true }})
		}
		if ch.failBlk < 2 {
			menu = append(menu, ev{"next block fetch fails", func() bool { ch.failBlk++; return true }})
		}
		if advances < 4 {
			menu = append(menu, ev{"advance 100ms (retry timer)", func() bool { advances++; time.Sleep(100 * time.Millisecond); return true }})
		}
		// (a second update may be handed in while the first still waits for
		// the rescan goroutine, which is parked in a chain query)
		if updates < 2 && (len(inflight) == 0 || (len(inflight) == 1 && ch.waiting > 0)) {
			upd := func(name string, apply func(r *c09ref), o ...UpdateOption) {
				if len(inflight) == 1 && inflight[0].name == name {
					return
				}
				rw := -1
				if i := strings.Index(name, "Rewind to "); i >= 0 {
					fmt.Sscanf(name[i:], "Rewind to %d", &rw)
				}
				menu = append(menu, ev{"Update(" + name + ")", func() bool {
					updates++
					apply(may)
					u := &c09update{name: name, apply: apply, rewind: rw, from: len(log)}
					u.task = verifbubble.Go("Update", func() (any, error) { return nil, rescan.Update(o...) })
					inflight = append(inflight, u)
					verifbubble.Wait()
					if !u.task.Done() && ch.waiting == 0 {
						c.Fail("stuck", "update-blocks", "Rescan.Update(%s) does not return although every goroutine is idle", name)
						return false
					}
					return true
				}})
			}
			upd("AddAddrs Y", func(r *c09ref) { r.scripts = append(r.scripts, f.scriptY) }, AddAddrs(f.addrY))
			if watch == 1 {
				upd("AddAddrs X, Rewind to 1", func(r *c09ref) { r.scripts = append(r.scripts, f.scriptX) }, AddAddrs(f.addrX), Rewind(1))
			}
			upd("AddInputs pre-watched outpoint", func(r *c09ref) { r.inputs[f.preOut] = true },
				AddInputs(InputWithScript{OutPoint: f.preOut, PkScript: f.scriptZ}))
			upd("Rewind to 1", func(r *c09ref) {}, Rewind(1))
			upd("Rewind to 3", func(r *c09ref) {}, Rewind(3))
		}
		e := menu[c.ChooseFree(len(menu), "event")]
		c.Step("%s%s", e.name, burst.Begin())
		if !e.run() {
			return
		}
	}
	if c.Failed() {
		return
	}
	verifbubble.Wait()
	burst.End()
	burst.Off()
	// ---- wind down: no more failures or parked queries, let retries fire;
	// the rescan must arrive at the tip of the best chain.
	verifbubble.Wait()
	ch.failFlt, ch.failBlk = 0, 0
	ch.gateOn = false
	ch.current = true
	if ch.waiting > 0 {
		ch.release <- struct{}{}
	}
	atTip := func() bool { return cursor == ch.best[len(ch.best)-1] && len(inflight) == 0 }
	for i := 0; i < 14 && !poll(); i++ {
		verifbubble.Wait()
		if judge() {
			return
		}
		settle()
		if atTip() {
			break
		}
		if i == 3 && canExtend(0) {
			// a rescan that waits for the header chain to be current, or
			// that holds a block of a branch that is gone, only moves on
			// a block notification
			if !extend() {
				return
			}
			continue
		}
		time.Sleep(100 * time.Millisecond)
	}
	// nothing may follow once the walk is at the tip
	time.Sleep(300 * time.Millisecond)
	verifbubble.Wait()
	if judge() {
		return
	}
	settle()
	poll()
	for _, u := range inflight {
		c.Fail("stuck", "update-blocks", "Rescan.Update(%s) has not returned although the rescan is idle", u.name)
		return
	}
	for _, o := range owed {
		if !o.ok && !done {
			var walk []string
			for i, cb := range log {
				w := "-"
				if cb.connected {
					w = "+"
				}
				if i == o.from {
					walk = append(walk, "[Update]")
				}
				if b, ok := f.byHash[cb.hash]; ok {
					w += b.label
				}
				walk = append(walk, w)
			}
			c.Fail("C09", "C09:rewind-not-performed", "Update(%s) returned without error, but from then on the walk never went back to height %d: the blocks above it were not delivered again under the updated filter (walk: %s; current block %s)", o.name, o.h, strings.Join(walk, " "), cursor.label)
			return
		}
	}
	tip := ch.best[len(ch.best)-1]
	if !done && cursor != tip {
		c.Fail("C09", "C09:walk-stops-short", "with every fetch succeeding and the retry timer fired repeatedly, the caller's current block is %s but the chain's tip is %s", cursor.label, tip.label)
		return
	}
	close(quit)
	tk := verifbubble.Go("WaitForShutdown", func() (any, error) { rescan.WaitForShutdown(); return nil, nil })
	verifbubble.Wait()
	if !tk.Done() {
		c.Fail("C09", "C09:quit-ignored", "the rescan does not exit after its quit channel was closed")
		return
	}
	ch.subs.Stop()
	verifbubble.Wait()
	var walk []string
	for _, cb := range log {
		s := "-" + label(cb.hash)
		if cb.connected {
			s = "+" + label(cb.hash)
			if len(cb.txs) > 0 {
				s += fmt.Sprintf("(%d tx)", len(cb.txs))
			}
		}
		walk = append(walk, s)
	}
	c.Obs(strings.Join(walk, " "))
}

func TestVFXC09(t *testing.T) {
	tier := verifeng.Tier()
	depth := 5
	if tier == "thorough" {
		depth = 6
	}
	if rp := os.Getenv("VFX_REPLAY"); rp != "" {
		v, err := verifeng.LoadReplay(rp)
		if err != nil {
			t.Fatal(err)
		}
		fmt.Sscanf(v.Config, "depth=%d", &depth)
		vfxInBurst = strings.Contains(v.Config, "in-burst")
		e := verifeng.FromEnv(v.Harness, v.Config)
		_, x, err := e.ReplayFile(rp, c09Body(t, depth))
		if err != nil {
			t.Fatal(err)
		}
		if x.Viol != nil {
			fmt.Printf("REPLAY-VIOLATION clause=%s sig=%s\n%s\n", x.Viol.Clause, x.Viol.Sig, x.Viol.Detail)
		} else {
			fmt.Println("REPLAY-OK no violation")
		}
		return
	}
	e := verifeng.FromEnv("C09-rescan", fmt.Sprintf("depth=%d main=5 fork=4", depth))
	e.ShardDepth = 3
	e.MaxViol = 12
	e.Run(c09Body(t, depth))
	if err := verifeng.AppendResult(&e.Res); err != nil {
		t.Fatal(err)
	}
	// second configuration: at most one in-burst deviation per execution
	vfxInBurst = true
	e = verifeng.FromEnv("C09-rescan", fmt.Sprintf("depth=%d main=5 fork=4 in-burst deviations<=1", depth-2))
	e.ShardDepth = 3
	e.MaxViol = 12
	e.MaxDev = 1
	e.Run(c09Body(t, depth-2))
	vfxInBurst = false
	if err := verifeng.AppendResult(&e.Res); err != nil {
		t.Fatal(err)
	}
}

package neutrino

// C10 — GetUtxo reports the true fate of an outpoint, exactly once. The real
// UtxoScanner in a synctest bubble; its four configuration callbacks are
// served from a harness-owned growing chain, and the per-height callback
// (GetBlockHash) is a gate: the scan advances one height only when the
// explorer says so, so requests, new blocks, cancellations and Stop can land
// at every point relative to the running batch scan.

import (
	"errors"
	"fmt"
	"os"
	"sort"
	"strings"
	"testing"
	"time"

	"github.com/btcsuite/btcd/btcutil/v2"
	"github.com/btcsuite/btcd/chainhash/v2"
	"github.com/btcsuite/btcd/wire/v2"
	"github.com/lightninglabs/neutrino/headerfs"
	"github.com/lightninglabs/neutrino/internal/verifbubble"
	"github.com/lightninglabs/neutrino/internal/verifdetrt"
	"github.com/lightninglabs/neutrino/internal/verifeng"
)

type c10chain struct {
	blocks []*wire.MsgBlock // index = height
}

func c10script(i byte) []byte {
	return []byte{0x00, 0x14, i, i, i, i, 1, 2, 3, 4, 5, 6, 7, 8, 9, 10, 11, 12, 13, 14, 15, 16}
}

// The full chain (heights 0..6); executions start with a prefix of it and
// grow it block by block.
//
//	height 1: tx A creates A:0 (script 1), A:1 (script 2) and A:2 (script 1
//	          again: two outputs paying the same address)
//	height 2: tx B creates B:0 (script 3); tx C spends B:0 in the same block
//	height 3: tx S spends A:0 with its input 1 (input 0 spends something else)
//	height 4: nothing relevant
//	height 5: tx U spends A:1; tx V spends A:2
//	height 6: nothing relevant
func c10Build() (*c10chain, map[string]wire.OutPoint) {
	mk := func(salt byte, ins []wire.OutPoint, outs ...[]byte) *wire.MsgTx {
		tx := wire.NewMsgTx(2)
		for _, in := range ins {
			in := in
			tx.AddTxIn(wire.NewTxIn(&in, []byte{salt}, nil))
		}
		for i, s := range outs {
			tx.AddTxOut(wire.NewTxOut(int64(1000+i)+int64(salt), s))
		}
		return tx
	}
	rnd := func(b byte) wire.OutPoint {
		var h chainhash.Hash
		h[0], h[1] = b, 0xee
		return wire.OutPoint{Hash: h, Index: 0}
	}
	cb := func(h byte) *wire.MsgTx { return mk(h, []wire.OutPoint{{Index: 0xffffffff}}, c10script(100+h)) }
	A := mk(1, []wire.OutPoint{rnd(1)}, c10script(1), c10script(2), c10script(1))
	B := mk(2, []wire.OutPoint{rnd(2)}, c10script(3))
	C := mk(3, []wire.OutPoint{{Hash: B.TxHash(), Index: 0}}, c10script(4))
	S := mk(4, []wire.OutPoint{rnd(3), {Hash: A.TxHash(), Index: 0}}, c10script(5))
	U := mk(5, []wire.OutPoint{{Hash: A.TxHash(), Index: 1}}, c10script(6))
	V := mk(6, []wire.OutPoint{{Hash: A.TxHash(), Index: 2}}, c10script(7))
	ch := &c10chain{}
	var prev chainhash.Hash
	for h := byte(0); h <= 6; h++ {
		blk := &wire.MsgBlock{Header: wire.BlockHeader{Version: 1, PrevBlock: prev, Nonce: uint32(h), Timestamp: time.Unix(1600000000+int64(h)*600, 0)}}
		blk.Transactions = append(blk.Transactions, cb(h))
		switch h {
		case 1:
			blk.Transactions = append(blk.Transactions, A)
		case 2:
			blk.Transactions = append(blk.Transactions, B, C)
		case 3:
			blk.Transactions = append(blk.Transactions, S)
		case 5:
			blk.Transactions = append(blk.Transactions, U, V)
		}
		ch.blocks = append(ch.blocks, blk)
		prev = blk.BlockHash()
	}
	ops := map[string]wire.OutPoint{
		"A:0": {Hash: A.TxHash(), Index: 0}, "A:1": {Hash: A.TxHash(), Index: 1},
		"A:2": {Hash: A.TxHash(), Index: 2},
		"A:7": {Hash: A.TxHash(), Index: 7}, "B:0": {Hash: B.TxHash(), Index: 0},
		"none": rnd(9),
	}
	return ch, ops
}

type c10req struct {
	name   string
	op     string
	script byte
	birth  uint32
}

var c10pool = []c10req{
	{"A:0@1", "A:0", 1, 1}, // created at its start block, spent at 3 by input 1
	{"A:0@1(dup)", "A:0", 1, 1},
	{"A:0@0", "A:0", 1, 0},   // start before creation
	{"A:0@4", "A:0", 1, 4},   // start after the spend
	{"A:1@1", "A:1", 2, 1},   // second output of the same tx, spent only at 5
	{"A:2@1", "A:2", 1, 1},   // third output, same script as A:0, spent only at 5
	{"A:7@1", "A:7", 9, 1},   // out-of-range index
	{"B:0@2", "B:0", 3, 2},   // created and spent in one block
	{"none@1", "none", 8, 1}, // never created
}

// expected computes the reference answer over blocks [birth, tip].
func c10Expected(ch *c10chain, ops map[string]wire.OutPoint, r c10req, tip int) string {
	op := ops[r.op]
	for h := int(r.birth); h <= tip; h++ {
		for _, tx := range ch.blocks[h].Transactions {
			for i, in := range tx.TxIn {
				if in.PreviousOutPoint == op {
					return fmt.Sprintf("spent by %s input %d at height %d", tx.TxHash().String()[:8], i, h)
				}
			}
		}
	}
	if int(r.birth) <= tip {
		for _, tx := range ch.blocks[r.birth].Transactions {
			if tx.TxHash() == op.Hash && int(op.Index) < len(tx.TxOut) {
				return fmt.Sprintf("unspent output value %d at height %d", tx.TxOut[op.Index].Value, r.birth)
			}
		}
	}
	return "empty report"
}

func c10Describe(rep *SpendReport, err error) string {
	switch {
	case err != nil:
		return "error: " + err.Error()
	case rep == nil:
		return "empty report"
	case rep.SpendingTx != nil:
		return fmt.Sprintf("spent by %s input %d at height %d", rep.SpendingTx.TxHash().String()[:8], rep.SpendingInputIndex, rep.SpendingTxHeight)
	case rep.Output != nil:
		return fmt.Sprintf("unspent output value %d at height %d", rep.Output.Value, rep.BlockHeight)
	}
	return "empty report"
}

type c10gate struct {
	height  int64
	release chan error
}

func c10Body(t *testing.T, depth, nreq int) func(c *verifeng.Chooser) {
	return func(c *verifeng.Chooser) {
		out := verifbubble.Run(t, func() { c10Run(c, depth, nreq) })
		switch {
		case out.Panic != nil:
			if ie, ok := out.Panic.(verifeng.InfraError); ok {
				panic(ie)
			}
			c.Fail("panic", "panic:"+firstWords(fmt.Sprint(out.Panic)), "%v", out.Panic)
		case out.Deadlock != "":
			c.Fail("stuck", "controller-deadlock", "%s", out.Deadlock)
		case out.Hang:
			c.Fail("hang", "hang", "the bubble never became quiescent: the scanner spins")
		case out.Leak != "" && !c.Failed():
			c.Fail("leak", "goroutines-left-after-stop", "%s", out.Leak)
		}
	}
}

func c10Run(c *verifeng.Chooser, depth, nreq int) {
	full, ops := c10Build()
	tip := 3 // heights 0..3 exist at the start
	var gate *c10gate
	failNextBlock := false
	batchFailed := map[*GetUtxoRequest]bool{}
	_ = batchFailed
	var fetchErrs, hashErrs int
	slowNextBlock := false
	var blockGate chan struct{}

	scanner := NewUtxoScanner(&UtxoScannerConfig{
		BestSnapshot: func() (*headerfs.BlockStamp, error) {
			return &headerfs.BlockStamp{Height: int32(tip), Hash: full.blocks[tip].BlockHash()}, nil
		},
		GetBlockHash: func(height int64) (*chainhash.Hash, error) {
			g := &c10gate{height: height, release: make(chan error)}
			gate = g
			if err := <-g.release; err != nil {
				return nil, err
			}
			if height > int64(tip) {
				return nil, errors.New("height above the tip")
			}
			h := full.blocks[height].BlockHash()
			return &h, nil
		},
		BlockFilterMatches: func(ro *rescanOptions, hash *chainhash.Hash) (bool, error) {
			for h := 0; h <= tip; h++ {
				if full.blocks[h].BlockHash() != *hash {
					continue
				}
				for _, tx := range full.blocks[h].Transactions {
					for _, o := range tx.TxOut {
						for _, w := range ro.watchList {
							if string(o.PkScript) == string(w) {
								return true, nil
							}
						}
					}
					for _, in := range tx.TxIn {
						// the spent script is part of the block's filter
						for name, op := range ops {
							if op == in.PreviousOutPoint {
								for _, r := range c10pool {
									if r.op == name {
										for _, w := range ro.watchList {
											if string(c10script(r.script)) == string(w) {
												return true, nil
											}
										}
									}
								}
							}
						}
					}
				}
			}
			return false, nil
		},
		GetBlock: func(hash chainhash.Hash, _ ...QueryOption) (*btcutil.Block, error) {
			if slowNextBlock {
				// the block download takes its time: requests can
				// arrive while the scan is inside it
				slowNextBlock = false
				g := make(chan struct{})
				blockGate = g
				<-g
			}
			if failNextBlock {
				failNextBlock = false
				fetchErrs++
				return nil, errors.New("block fetch failed")
			}
			for h := 0; h <= tip; h++ {
				if full.blocks[h].BlockHash() == hash {
					return btcutil.NewBlock(full.blocks[h]), nil
				}
			}
			return nil, errors.New("unknown block")
		},
	})
	if c.ChooseFree(2, "start-order") == 1 {
		// Stop reaches the scanner before Start does (ChainService.Stop
		// called while ChainService.Start is still busy, e.g. importing
		// headers), then Start goes on: the scanner must end up stopped -
		// Stop returns, and a request is either refused or its caller
		// released - not running with nobody left to stop it.
		c.Step("Stop is called before Start; then Start; then GetUtxo(%s)", c10pool[0].name)
		st := verifbubble.Go("Stop", func() (any, error) { return nil, scanner.Stop() })
		verifbubble.Wait()
		if err := scanner.Start(); err != nil {
			panic(verifeng.InfraError{Msg: err.Error()})
		}
		// Stop polls every 50 ms for the batch manager's exit
		time.Sleep(time.Second)
		verifbubble.Wait()
		if !st.Done() {
			c.Fail("C10", "C10:stop-blocks", "UtxoScanner.Stop, called before Start, has not returned a second after Start")
			return
		}
		r := c10pool[0]
		tk := verifbubble.Go("GetUtxo("+r.name+")", func() (any, error) {
			req, err := scanner.Enqueue(&InputWithScript{OutPoint: ops[r.op], PkScript: c10script(r.script)}, r.birth, nil)
			if err != nil {
				return nil, err
			}
			return req.Result(nil)
		})
		for i := 0; i < 8 && !tk.Done(); i++ {
			verifbubble.Wait()
			if gate != nil {
				g := gate
				gate = nil
				g.release <- nil
				continue
			}
			time.Sleep(3 * time.Second)
		}
		verifbubble.Wait()
		if !tk.Done() {
			c.Fail("C10", "C10:caller-left-waiting-after-stop", "Stop had returned (it was called before Start, Start followed); a GetUtxo request was accepted afterwards and its caller is never answered")
			// release the leaked batch manager for the clean-up
			return
		}
		if tk.Err == nil {
			c.Fail("C10", "C10:served-after-stop", "Stop had returned (it was called before Start, Start followed), yet a GetUtxo request made afterwards was scanned and answered: the scanner is running with nobody left to stop it")
			return
		}
		c.Obs("stop-before-start: " + tk.Err.Error())
		return
	}
	if err := scanner.Start(); err != nil {
		panic(verifeng.InfraError{Msg: err.Error()})
	}

	type live struct {
		r        c10req
		req      *GetUtxoRequest
		tk       *verifbubble.Task
		cancel   chan struct{}
		canceled bool
		judged   bool
		tipAtEnq int
	}
	var lives []*live
	used := map[int]bool{}
	stopped := false
	afterStop := false
	var stopTask *verifbubble.Task

	// judge newly finished callers against the reference, using the tip of
	// this quiescent point (deliveries only happen on steps that do not grow
	// the chain).
	judge := func() bool {
		for _, l := range lives {
			if l.judged || !l.tk.Done() {
				continue
			}
			l.judged = true
			got := c10Describe(l.tk.Val.(*SpendReport), l.tk.Err)
			if l.tk.Val.(*SpendReport) == nil && l.tk.Err != nil {
				// errors are legitimate after a failed callback, a
				// cancellation or shutdown
				if l.canceled && l.tk.Err == ErrGetUtxoCancelled {
					continue
				}
				if stopped && l.tk.Err == ErrShuttingDown {
					continue
				}
				if fetchErrs > 0 && strings.Contains(l.tk.Err.Error(), "block fetch failed") {
					continue
				}
				if hashErrs > 0 && strings.Contains(l.tk.Err.Error(), "block hash lookup failed") {
					continue
				}
				return c.Fail("C10", "C10:unexpected-error", "request %s failed with %v although no callback failed, it was not cancelled and the client was not stopped", l.r.name, l.tk.Err)
			}
			want := c10Expected(full, ops, l.r, tip)
			if got != want {
				return c.Fail("C10", "C10:wrong-report:"+strings.Fields(want)[0]+"-expected",
					"request %s (outpoint %s, start height %d, tip %d) was answered %q, the chain says %q", l.r.name, l.r.op, l.r.birth, tip, got, want)
			}
		}
		return false
	}

	// the order inside a burst as a further dimension (DESIGN 3.7)
	var burst *verifbubble.Burst
	if vfxInBurst {
		burst = verifbubble.NewBurst(c)
	}
	if vfxSyncPre {
		// third configuration: one preemption at a synchronisation point
		burst = verifbubble.NewBurst(c)
		if burst != nil {
			burst.NoSched, burst.NoSelect = true, true
			burst.Sync = verifdetrt.SyncMutex | verifdetrt.SyncSpawn | verifdetrt.SyncChan
		}
	}
	for d := 0; d < depth && !c.Failed(); d++ {
		verifbubble.Wait()
		burst.End()
		if sig, detail := verifbubble.LockOrder(); sig != "" {
			c.Fail("C10", "lock-order-inversion:"+sig, "%s", detail)
			return
		}
		if judge() {
			return
		}
		type ev struct {
			name string
			run  func()
		}
		var menu []ev
		if !stopped {
			n := 0
			for i, r := range c10pool {
				i, r := i, r
				if used[i] || len(lives) >= nreq {
					continue
				}
				n++
				menu = append(menu, ev{"GetUtxo(" + r.name + ")", func() {
					used[i] = true
					in := &InputWithScript{OutPoint: ops[r.op], PkScript: c10script(r.script)}
					req, err := scanner.Enqueue(in, r.birth, nil)
					if err != nil {
						c.Fail("C10", "C10:enqueue-fails", "Enqueue(%s): %v", r.name, err)
						return
					}
					l := &live{r: r, req: req, cancel: make(chan struct{}), tipAtEnq: tip}
					l.tk = verifbubble.Go("Result("+r.name+")", func() (any, error) {
						rep, err := req.Result(l.cancel)
						return rep, err
					})
					lives = append(lives, l)
				}})
			}
			if vfxSyncPre && len(lives)+2 <= nreq {
				// two callers at once (each in its own goroutine): only
				// then can a preemption inside Enqueue matter
				prev := -1
				for i := range c10pool {
					if used[i] {
						continue
					}
					if prev < 0 {
						prev = i
						continue
					}
					i, j := prev, i
					prev = -1
					ri, rj := c10pool[i], c10pool[j]
					menu = append(menu, ev{"GetUtxo(" + ri.name + ") and GetUtxo(" + rj.name + ") by two callers at once", func() {
						for _, k := range []int{i, j} {
							r := c10pool[k]
							used[k] = true
							l := &live{r: r, cancel: make(chan struct{}), tipAtEnq: tip}
							l.tk = verifbubble.Go("GetUtxo("+r.name+")", func() (any, error) {
								in := &InputWithScript{OutPoint: ops[r.op], PkScript: c10script(r.script)}
								req, err := scanner.Enqueue(in, r.birth, nil)
								if err != nil {
									return (*SpendReport)(nil), err
								}
								rep, err := req.Result(l.cancel)
								return rep, err
							})
							lives = append(lives, l)
						}
					}})
					if len(menu) > 24 {
						break
					}
				}
			}
			if tip < len(full.blocks)-1 {
				menu = append(menu, ev{fmt.Sprintf("block %d arrives", tip+1), func() { tip++ }})
			}
		}
		if gate != nil {
			g := gate
			menu = append(menu, ev{fmt.Sprintf("scan proceeds at height %d", g.height), func() { gate = nil; g.release <- nil }})
			menu = append(menu, ev{fmt.Sprintf("scan proceeds at height %d, its block download (if any) is slow", g.height), func() {
				gate = nil
				slowNextBlock = true
				g.release <- nil
			}})
			menu = append(menu, ev{fmt.Sprintf("scan at height %d: the block hash lookup fails", g.height), func() {
				gate = nil
				hashErrs++
				g.release <- errors.New("block hash lookup failed")
			}})
			menu = append(menu, ev{fmt.Sprintf("scan proceeds at height %d, fetching its block fails", g.height), func() {
				gate = nil
				failNextBlock = true
				g.release <- nil
			}})
		}
		if blockGate != nil {
			bg := blockGate
			menu = append(menu, ev{"the slow block download returns", func() { blockGate = nil; close(bg) }})
		}
		for _, l := range lives {
			l := l
			if !l.canceled && !l.tk.Done() {
				menu = append(menu, ev{"cancel caller of " + l.r.name, func() { l.canceled = true; close(l.cancel) }})
			}
		}
		if !stopped {
			menu = append(menu, ev{"Stop", func() {
				stopped = true
				stopTask = verifbubble.Go("Stop", func() (any, error) { return nil, scanner.Stop() })
			}})
		}
		if stopped && stopTask != nil && stopTask.Done() && !afterStop {
			// a request made after Stop has returned is refused (or its
			// caller released) at once, whatever the scanner was doing
			// when it was stopped
			for i, r := range c10pool {
				if used[i] {
					continue
				}
				i, r := i, r
				menu = append(menu, ev{"GetUtxo(" + r.name + ") after Stop has returned", func() {
					afterStop = true
					used[i] = true
					tk := verifbubble.Go("GetUtxo("+r.name+") after Stop", func() (any, error) {
						req, err := scanner.Enqueue(&InputWithScript{OutPoint: ops[r.op], PkScript: c10script(r.script)}, r.birth, nil)
						if err != nil {
							return nil, err
						}
						return req.Result(nil)
					})
					verifbubble.Wait()
					time.Sleep(time.Second)
					verifbubble.Wait()
					if !tk.Done() {
						c.Fail("C10", "C10:caller-blocked-after-stop", "Stop had returned; a GetUtxo request made afterwards neither fails nor is answered: its caller is blocked for good")
					} else if tk.Err == nil {
						c.Fail("C10", "C10:served-after-stop", "Stop had returned, yet a GetUtxo request made afterwards was answered without an error")
					}
				}})
				break
			}
		}
		if len(menu) == 0 {
			break
		}
		e := menu[c.ChooseFree(len(menu), "event")]
		c.Step("%s%s", e.name, burst.Begin())
		e.run()
	}
	if c.Failed() {
		return
	}
	verifbubble.Wait()
	burst.End()
	burst.Off()
	// ---- wind down: let the scan run to completion, then stop; every
	// caller must have returned.
	stalls := 0
	for i := 0; i < 60; i++ {
		verifbubble.Wait()
		if judge() {
			return
		}
		if blockGate != nil {
			close(blockGate)
			blockGate = nil
			stalls = 0
			continue
		}
		slowNextBlock = false
		if gate != nil {
			g := gate
			gate = nil
			g.release <- nil
			stalls = 0
			continue
		}
		pending := false
		for _, l := range lives {
			pending = pending || !l.tk.Done()
		}
		if !pending {
			break
		}
		if stopped {
			time.Sleep(100 * time.Millisecond)
			continue
		}
		// a request whose start height is above the tip waits for the
		// chain: let the chain grow and the scanner's retry timer fire
		future, present := false, false
		for _, l := range lives {
			if !l.tk.Done() && int(l.r.birth) > tip {
				future = true
			}
			if !l.tk.Done() && int(l.r.birth) <= tip {
				present = true
			}
		}
		if future && present && stalls < 4 {
			// a request at or below the tip does not depend on the
			// chain growing: it has to be answered while the request
			// above the tip waits (the scanner retries every few
			// seconds; four rounds with nothing outstanding)
			stalls++
			time.Sleep(3 * time.Second)
			continue
		}
		if future && present {
			var waiting []string
			for _, l := range lives {
				if !l.tk.Done() && int(l.r.birth) <= tip {
					waiting = append(waiting, l.r.name)
				}
			}
			c.Fail("C10", "C10:caller-left-waiting", "the scan has nothing more to do (no callback outstanding) and the chain (tip %d) has not grown for 12 s, but these callers whose start height is not above the tip are still waiting behind a request that starts above it: %v", tip, waiting)
			return
		}
		if future && tip < len(full.blocks)-1 {
			tip++
		}
		time.Sleep(3 * time.Second)
		if i > 40 {
			break
		}
	}
	verifbubble.Wait()
	if judge() {
		return
	}
	if !stopped {
		var waiting []string
		for _, l := range lives {
			if !l.tk.Done() && int(l.r.birth) <= tip {
				waiting = append(waiting, l.r.name)
			}
		}
		if len(waiting) > 0 {
			c.Fail("C10", "C10:caller-left-waiting", "the scan has nothing more to do (no callback outstanding) but these callers are still waiting: %v", waiting)
			return
		}
		stopped = true
		stopTask = verifbubble.Go("Stop", func() (any, error) { return nil, scanner.Stop() })
	}
	for i := 0; i < 40 && !stopTask.Done(); i++ {
		verifbubble.Wait()
		if blockGate != nil {
			close(blockGate)
			blockGate = nil
			continue
		}
		slowNextBlock = false
		if gate != nil {
			g := gate
			gate = nil
			g.release <- nil
			continue
		}
		time.Sleep(60 * time.Millisecond)
	}
	verifbubble.Wait()
	if !stopTask.Done() {
		c.Fail("C10", "C10:stop-blocks", "UtxoScanner.Stop has not returned")
		return
	}
	if judge() {
		return
	}
	var obs []string
	for _, l := range lives {
		if !l.tk.Done() {
			c.Fail("C10", "C10:caller-left-waiting-after-stop", "caller of %s is still waiting after Stop", l.r.name)
			return
		}
		obs = append(obs, l.r.name+"="+c10Describe(l.tk.Val.(*SpendReport), l.tk.Err))
	}
	sort.Strings(obs)
	c.Obs(strings.Join(obs, "; "))
}

func TestVFXC10(t *testing.T) {
	tier := verifeng.Tier()
	depth, nreq := 7, 2
	if tier == "thorough" {
		depth, nreq = 9, 3
	}
	if rp := os.Getenv("VFX_REPLAY"); rp != "" {
		v, err := verifeng.LoadReplay(rp)
		if err != nil {
			t.Fatal(err)
		}
		fmt.Sscanf(v.Config, "depth=%d requests=%d", &depth, &nreq)
		vfxInBurst = strings.Contains(v.Config, "in-burst")
		vfxSyncPre = strings.Contains(v.Config, "preemption")
		e := verifeng.FromEnv(v.Harness, v.Config)
		_, x, err := e.ReplayFile(rp, c10Body(t, depth, nreq))
		if err != nil {
			t.Fatal(err)
		}
		if x.Viol != nil {
			fmt.Printf("REPLAY-VIOLATION clause=%s sig=%s\n%s\n", x.Viol.Clause, x.Viol.Sig, x.Viol.Detail)
		} else {
			fmt.Println("REPLAY-OK no violation")
		}
		return
	}
	e := verifeng.FromEnv("C10-utxoscanner", fmt.Sprintf("depth=%d requests=%d pool=%d", depth, nreq, len(c10pool)))
	e.ShardDepth = 2
	e.MaxViol = 12
	e.Run(c10Body(t, depth, nreq))
	if err := verifeng.AppendResult(&e.Res); err != nil {
		t.Fatal(err)
	}
	// second configuration: at most one in-burst deviation per execution
	vfxInBurst = true
	e = verifeng.FromEnv("C10-utxoscanner", fmt.Sprintf("depth=%d requests=%d pool=%d in-burst deviations<=1", depth-2, nreq, len(c10pool)))
	e.ShardDepth = 2
	e.MaxViol = 12
	e.MaxDev = 1
	e.Run(c10Body(t, depth-2, nreq))
	vfxInBurst = false
	if err := verifeng.AppendResult(&e.Res); err != nil {
		t.Fatal(err)
	}
	// three live requests (one running, one deferred to the next batch, one
	// above the tip), shallower
	e = verifeng.FromEnv("C10-utxoscanner", fmt.Sprintf("depth=%d requests=%d pool=%d", depth-2, nreq+1, len(c10pool)))
	e.ShardDepth = 2
	e.MaxViol = 12
	e.Run(c10Body(t, depth-2, nreq+1))
	if err := verifeng.AppendResult(&e.Res); err != nil {
		t.Fatal(err)
	}
	// third configuration: at most one preemption at a synchronisation point
	// per execution, callers arriving in pairs
	vfxSyncPre = true
	e = verifeng.FromEnv("C10-utxoscanner", fmt.Sprintf("depth=%d requests=%d pool=%d preemption at a synchronisation point<=1", depth-3, nreq, len(c10pool)))
	e.ShardDepth = 2
	e.MaxViol = 12
	e.MaxDev = 1
	e.Run(c10Body(t, depth-3, nreq))
	vfxSyncPre = false
	if err := verifeng.AppendResult(&e.Res); err != nil {
		t.Fatal(err)
	}
}

// TestVFXC10SS is the C17 part of this harness: Stop reaching the scanner
// before Start (and the plain start/stop), with no further stimuli.
func TestVFXC10SS(t *testing.T) {
	if rp := os.Getenv("VFX_REPLAY"); rp != "" {
		TestVFXC10(t)
		return
	}
	e := verifeng.FromEnv("C10-utxoscanner", fmt.Sprintf("depth=%d requests=%d pool=%d", 1, 1, len(c10pool)))
	e.MaxViol = 12
	e.Run(c10Body(t, 1, 1))
	if err := verifeng.AppendResult(&e.Res); err != nil {
		t.Fatal(err)
	}
}

package neutrino

// Simulated remote ends for real btcd peers: a hand-rolled wire-protocol
// endpoint over net.Pipe completes the version handshake with the client's
// *peer.Peer (so Services, StartingHeight, LastBlock, PushGetHeadersMsg and
// Disconnect are the real thing), then records every message the client sends.

import (
	"fmt"
	"net"
	"sync"
	"time"

	"github.com/btcsuite/btcd/chaincfg/v2"
	"github.com/btcsuite/btcd/chainhash/v2"
	"github.com/btcsuite/btcd/peer"
	"github.com/btcsuite/btcd/wire/v2"
)

type vfxRemote struct {
	name   string
	conn   net.Conn
	params *chaincfg.Params
	mu     sync.Mutex
	got    []wire.Message
	closed bool
	ready  bool
}

// GetHeaders returns (and clears) the getheaders the client sent.
func (r *vfxRemote) takeGetHeaders() []*wire.MsgGetHeaders {
	r.mu.Lock()
	defer r.mu.Unlock()
	var out []*wire.MsgGetHeaders
	var rest []wire.Message
	for _, m := range r.got {
		if gh, ok := m.(*wire.MsgGetHeaders); ok {
			out = append(out, gh)
		} else {
			rest = append(rest, m)
		}
	}
	r.got = rest
	return out
}

func (r *vfxRemote) isClosed() bool {
	r.mu.Lock()
	defer r.mu.Unlock()
	return r.closed
}

var vfxNonce uint64 = 0x5eed0000

// vfxNewPeer creates a ServerPeer whose real peer.Peer is connected to a
// simulated remote advertising the given services and best height. Must run
// inside a synctest bubble; call synctest.Wait afterwards to complete the
// handshake.
func vfxNewPeer(s *ChainService, params *chaincfg.Params, addr string,
	services wire.ServiceFlag, height int32, listeners *peer.MessageListeners) (*ServerPeer, *vfxRemote, error) {

	sp := NewServerPeer(s, false)
	cfg := &peer.Config{
		ChainParams:      params,
		Services:         wire.SFNodeWitness,
		UserAgentName:    "vfx",
		UserAgentVersion: "0",
		ProtocolVersion:  wire.AddrV2Version,
		DisableRelayTx:   true,
		NewestBlock: func() (*chainhash.Hash, int32, error) {
			return params.GenesisHash, 0, nil
		},
	}
	if listeners != nil {
		cfg.Listeners = *listeners
	}
	p, err := peer.NewOutboundPeer(cfg, addr)
	if err != nil {
		return nil, nil, err
	}
	sp.Peer = p
	c1, c2 := net.Pipe()
	r := &vfxRemote{name: addr, conn: c2, params: params}
	go r.run(services, height)
	p.AssociateConnection(c1)
	return sp, r, nil
}

func (r *vfxRemote) run(services wire.ServiceFlag, height int32) {
	pver := uint32(wire.AddrV2Version)
	read := func() (wire.Message, error) {
		_, m, _, err := wire.ReadMessageN(r.conn, pver, r.params.Net)
		return m, err
	}
	write := func(m wire.Message) error {
		return wire.WriteMessage(r.conn, m, pver, r.params.Net)
	}
	fail := func(err error) {
		r.mu.Lock()
		r.closed = true
		r.mu.Unlock()
		r.conn.Close()
	}
	m, err := read()
	if err != nil {
		fail(err)
		return
	}
	if _, ok := m.(*wire.MsgVersion); !ok {
		fail(fmt.Errorf("expected version"))
		return
	}
	vfxNonce++
	me := wire.NewNetAddressIPPort(net.ParseIP("10.0.0.1"), 18444, services)
	you := wire.NewNetAddressIPPort(net.ParseIP("10.0.0.2"), 18444, 0)
	v := wire.NewMsgVersion(me, you, vfxNonce, height)
	v.Services = services
	v.ProtocolVersion = int32(pver)
	v.Timestamp = time.Unix(time.Now().Unix(), 0)
	if err := write(v); err != nil {
		fail(err)
		return
	}
	for {
		m, err := read()
		if err != nil {
			fail(err)
			return
		}
		if _, ok := m.(*wire.MsgVerAck); ok {
			break
		}
	}
	if err := write(wire.NewMsgVerAck()); err != nil {
		fail(err)
		return
	}
	r.mu.Lock()
	r.ready = true
	r.mu.Unlock()
	for {
		m, err := read()
		if err != nil {
			if _, ok := err.(*wire.MessageError); ok {
				continue
			}
			fail(err)
			return
		}
		r.mu.Lock()
		r.got = append(r.got, m)
		r.mu.Unlock()
	}
}

// vfxInBurst switches the in-burst deviations (DESIGN 3.7) of the root
// package's component harnesses on: the second configuration of each.
var vfxInBurst bool

// vfxSyncPre selects the configuration "one preemption at a synchronisation
// point per execution" (DESIGN 3.9) of a component harness.
var vfxSyncPre bool

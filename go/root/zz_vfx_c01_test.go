package neutrino

// C01 / C02 — the stored block-header chain is always fully valid, and is
// reorganised only to a strictly heavier valid branch above the last
// checkpoint. An unstarted blockManager over real header stores; real
// ServerPeers (handshaken with simulated remotes inside a synctest bubble);
// the handlers handleNewPeerMsg / handleHeadersMsg / handleInvMsg /
// handleDonePeerMsg are called one message at a time, over every sequence of
// an adversarial alphabet derived from a generated block tree.

import (
	"container/list"
	"fmt"
	"math/big"
	"os"
	"sort"
	"strings"
	"testing"
	"time"

	"github.com/btcsuite/btcd/blockchain"
	"github.com/btcsuite/btcd/chaincfg/v2"
	"github.com/btcsuite/btcd/chainhash/v2"
	"github.com/btcsuite/btcd/wire/v2"
	"github.com/lightninglabs/neutrino/banman"
	"github.com/lightninglabs/neutrino/blockntfns"
	"github.com/lightninglabs/neutrino/headerfs"
	"github.com/lightninglabs/neutrino/internal/verifbubble"
	"github.com/lightninglabs/neutrino/internal/verifchain"
	"github.com/lightninglabs/neutrino/internal/verifeng"
	"github.com/lightninglabs/neutrino/internal/verifhfs"
)

type vfxTime struct{ now time.Time }

func (v vfxTime) AdjustedTime() time.Time         { return v.now }
func (v vfxTime) AddTimeSample(string, time.Time) {}
func (v vfxTime) Offset() time.Duration           { return 0 }

// ------------------------------------------------------------ fixtures

type c01cfg struct {
	name        string
	retarget    int
	minDiff     bool
	checkpoints []int // trunk heights
	stale       bool  // clock 3 days past the trunk tip (never "current")
}

type c01batch struct {
	name  string
	nodes []*verifchain.Node
}

type c01fix struct {
	cfg     c01cfg
	params  *chaincfg.Params
	now     time.Time
	trunk   []*verifchain.Node // index = height
	all     []*verifchain.Node // every generated node (for lookups)
	byHash  map[chainhash.Hash]*verifchain.Node
	batches []c01batch
}

var c01fixtures = map[string]*c01fix{}

func (f *c01fix) add(n *verifchain.Node) *verifchain.Node {
	f.all = append(f.all, n)
	f.byHash[n.Hash] = n
	return n
}

func (f *c01fix) label(h chainhash.Hash) string {
	if n, ok := f.byHash[h]; ok {
		return n.Label
	}
	if h == (chainhash.Hash{}) {
		return "-"
	}
	return "?" + h.String()[:6]
}

const c01TrunkLen = 7 // T1..T7

func getC01Fixture(cfg c01cfg) *c01fix {
	if f, ok := c01fixtures[cfg.name]; ok {
		return f
	}
	p := verifchain.Params(verifchain.Opt{Retarget: cfg.retarget, MinDiff: cfg.minDiff, Net: 0x0b11fefe})
	f := &c01fix{cfg: cfg, params: p, byHash: map[chainhash.Hash]*verifchain.Node{}}
	g := f.add(verifchain.Genesis(p))
	f.trunk = []*verifchain.Node{g}
	cur := g
	for i := 1; i <= c01TrunkLen; i++ {
		cur = f.add(verifchain.Mine(p, cur, 10*time.Minute, 1, fmt.Sprintf("T%d", i)))
		f.trunk = append(f.trunk, cur)
	}
	f.now = f.trunk[c01TrunkLen].Hdr.Timestamp.Add(time.Hour)
	if cfg.stale {
		f.now = f.trunk[c01TrunkLen].Hdr.Timestamp.Add(72 * time.Hour)
	}
	for _, h := range cfg.checkpoints {
		p.Checkpoints = append(p.Checkpoints, chaincfg.Checkpoint{Height: int32(h), Hash: &f.trunk[h].Hash})
	}
	// forks: B from T1 (B2..B6, 9 minute spacing: different timestamps give
	// different work once a retarget is crossed), C from T3 (C4..C6).
	fork := func(from *verifchain.Node, n int, salt uint32, prefix string, spacing time.Duration) []*verifchain.Node {
		var out []*verifchain.Node
		c := from
		for i := 0; i < n; i++ {
			c = f.add(verifchain.Mine(p, c, spacing, salt, fmt.Sprintf("%s%d", prefix, c.Height+1)))
			out = append(out, c)
		}
		return out
	}
	B := fork(f.trunk[1], 5, 2, "B", 9*time.Minute)
	C := fork(f.trunk[3], 3, 3, "C", 10*time.Minute)

	seg := func(name string, ns ...*verifchain.Node) {
		f.batches = append(f.batches, c01batch{name, ns})
	}
	// trunk segments of length 1..3
	for i := 1; i <= c01TrunkLen; i++ {
		for j := i; j <= c01TrunkLen && j < i+3; j++ {
			seg(fmt.Sprintf("T%d..T%d", i, j), f.trunk[i:j+1]...)
		}
	}
	// invalid children, alone and after a valid header
	for k := 0; k <= 3; k++ {
		parent := f.trunk[k]
		ts := parent.Hdr.Timestamp.Add(10 * time.Minute)
		good := verifchain.RequiredBits(p, parent, ts)
		var bad []*verifchain.Node
		x := f.add(verifchain.MineAt(p, parent, ts, good, 7, fmt.Sprintf("Xpow%d", k+1), false))
		x.Invalid = "pow"
		bad = append(bad, x)
		wrong := good - 1
		x = f.add(verifchain.MineAt(p, parent, ts, wrong, 8, fmt.Sprintf("Xbits%d", k+1), true))
		x.Invalid = "bits"
		bad = append(bad, x)
		// timestamp not after the median of the previous (up to 11) blocks
		old := f.trunk[k/2].Hdr.Timestamp
		x = f.add(verifchain.MineAt(p, parent, old, verifchain.RequiredBits(p, parent, old), 9, fmt.Sprintf("Xold%d", k+1), true))
		x.Invalid = "time-too-old"
		bad = append(bad, x)
		fut := f.now.Add(3 * time.Hour)
		x = f.add(verifchain.MineAt(p, parent, fut, verifchain.RequiredBits(p, parent, fut), 10, fmt.Sprintf("Xnew%d", k+1), true))
		x.Invalid = "time-too-new"
		bad = append(bad, x)
		for _, b := range bad {
			seg(b.Label, b)
			if k >= 1 {
				seg(fmt.Sprintf("T%d,%s", k, b.Label), f.trunk[k], b)
			}
		}
	}
	seg("T1,T3(not linked)", f.trunk[1], f.trunk[3])
	seg("B2", B[0])
	seg("B2,B3", B[:2]...)
	seg("B2..B4", B[:3]...)
	seg("B2..B5", B[:4]...)
	seg("B2..B6", B[:5]...)
	seg("B3", B[1])
	seg("B3,B4", B[1:3]...)
	seg("B4..B6", B[2:5]...)
	seg("C4", C[0])
	seg("C4,C5", C[:2]...)
	seg("C4..C6", C[:3]...)
	seg("C5,C6", C[1:3]...)
	// one message that runs through the trunk and on into fork C: with
	// checkpoints at 2 and 4 it carries the genuine header of one checkpoint
	// and a valid header that is not the next one
	seg("T1..T3,C4", f.trunk[1], f.trunk[2], f.trunk[3], C[0])
	seg("T2,T3,C4,C5", f.trunk[2], f.trunk[3], C[0], C[1])
	seg("T3,C4", f.trunk[3], C[0])
	// forks whose clocks run differently from the trunk's, so that the
	// median time past seen from the fork differs from the one seen from the
	// trunk at the same height: D from T1 with one minute between blocks
	// (every header valid, but earlier than the trunk's median time from
	// height 4 on), E from T1 with 30 minutes between blocks and a last
	// header that is later than the trunk's median time but not later than
	// the fork's own (invalid).
	D := fork(f.trunk[1], 6, 4, "D", time.Minute)
	seg("D2..D6", D[:5]...)
	seg("D2..D7", D[:6]...)
	seg("D2..D5", D[:4]...)
	E := fork(f.trunk[1], 4, 5, "E", 30*time.Minute)
	{
		parent := E[3] // E5
		ts := f.trunk[1].Hdr.Timestamp.Add(45 * time.Minute)
		x := f.add(verifchain.MineAt(p, parent, ts, verifchain.RequiredBits(p, parent, ts), 11, "Eold6", true))
		x.Invalid = "time-too-old"
		seg("E2..E5,Eold6", append(append([]*verifchain.Node{}, E...), x)...)
		seg("E2..E5", E...)
	}
	seg("empty")
	c01fixtures[cfg.name] = f
	return f
}

// ------------------------------------------------------------ harness

type c01peer struct {
	name   string
	sp     *ServerPeer
	remote *vfxRemote
	state  string // "", "up", "kicked" (client disconnected it), "done"
	height int32
}

type c01h struct {
	c       *verifeng.Chooser
	f       *c01fix
	env     *verifhfs.Env
	bm      *blockManager
	bs      headerfs.BlockHeaderStore
	fs      headerfs.FilterHeaderStore
	cand    *list.List
	peers   []*c01peer
	reached int32 // newest checkpoint height the accepted chain has reached
	ntfns   []blockntfns.BlockNtfn
}

func (h *c01h) storeChain() ([]wire.BlockHeader, string) {
	_, tip, err := h.bs.ChainTip()
	if err != nil {
		return nil, "ChainTip: " + err.Error()
	}
	out := make([]wire.BlockHeader, 0, tip+1)
	for i := uint32(0); i <= tip; i++ {
		hd, err := h.bs.FetchHeaderByHeight(i)
		if err != nil {
			return nil, fmt.Sprintf("FetchHeaderByHeight(%d) below the tip %d: %v", i, tip, err)
		}
		out = append(out, *hd)
	}
	return out, ""
}

func (h *c01h) chainLabels(ch []wire.BlockHeader) string {
	var l []string
	for _, x := range ch {
		l = append(l, h.f.label(x.BlockHash()))
	}
	return strings.Join(l, " ")
}

// checkC01 validates the stored chain with the reference validator and the
// agreement of the three lookup paths.
func (h *c01h) checkC01() (chain []wire.BlockHeader, bad string) {
	f := h.f
	chain, bad = h.storeChain()
	if bad != "" {
		return nil, "lookups disagree: " + bad
	}
	tipHdr, tipH, _ := h.bs.ChainTip()
	if int(tipH) != len(chain)-1 || *tipHdr != chain[tipH] {
		return chain, "ChainTip disagrees with the walk by height"
	}
	if chain[0] != f.trunk[0].Hdr {
		return chain, "height 0 is not the genesis header"
	}
	parent := f.trunk[0]
	for i := 1; i < len(chain); i++ {
		hd := chain[i]
		if err := verifchain.Check(f.params, parent, &hd, f.now); err != nil {
			return chain, fmt.Sprintf("stored header at height %d (%s) is invalid: %v", i, f.label(hd.BlockHash()), err)
		}
		parent = verifchain.Adopt(parent, hd, "")
	}
	for _, cp := range f.params.Checkpoints {
		if int(cp.Height) < len(chain) && chain[cp.Height].BlockHash() != *cp.Hash {
			return chain, fmt.Sprintf("stored header at checkpoint height %d is %s, not the checkpoint", cp.Height, f.label(chain[cp.Height].BlockHash()))
		}
	}
	for _, n := range f.all {
		hash := n.Hash
		present := int(n.Height) < len(chain) && chain[n.Height].BlockHash() == hash
		hd, ht, err := h.bs.FetchHeader(&hash)
		hh, err2 := h.bs.HeightFromHash(&hash)
		if present {
			if err != nil || err2 != nil || ht != uint32(n.Height) || hh != uint32(n.Height) || *hd != n.Hdr {
				return chain, fmt.Sprintf("lookups disagree: %s is at height %d by height, but by hash: FetchHeader height=%d err=%v, HeightFromHash=%d err=%v", n.Label, n.Height, ht, err, hh, err2)
			}
		} else if err == nil || err2 == nil {
			return chain, fmt.Sprintf("lookups disagree: %s is not on the chain by height but is found by hash (height %d / %d)", n.Label, ht, hh)
		}
	}
	return chain, ""
}

func workOf(hs []wire.BlockHeader) *big.Int {
	w := big.NewInt(0)
	for _, x := range hs {
		w.Add(w, blockchain.CalcWork(x.Bits))
	}
	return w
}

// key is the canonical state for pruning: everything the handlers read.
func (h *c01h) key(chain []wire.BlockHeader) string {
	var b strings.Builder
	b.WriteString(h.chainLabels(chain))
	// the fault budget that is left is part of the state (a history that
	// has used its one failing write has other futures)
	fmt.Fprintf(&b, "|faults:%d", len(h.env.Deviated))
	b.WriteString("|list:")
	for n := h.bm.headerList.Back(); n != nil; n = n.Prev() {
		fmt.Fprintf(&b, "%s@%d,", h.f.label(n.Header.BlockHash()), n.Height)
	}
	sync := "-"
	for _, p := range h.peers {
		if p.sp != nil && h.bm.syncPeer == p.sp {
			sync = p.name
		}
	}
	ncp := int32(-1)
	if h.bm.nextCheckpoint != nil {
		ncp = h.bm.nextCheckpoint.Height
	}
	fmt.Fprintf(&b, "|sync=%s ncp=%d lastreq=%s tip=%d/%s reached=%d", sync, ncp,
		h.f.label(h.bm.lastRequested), h.bm.headerTip, h.f.label(h.bm.headerTipHash), h.reached)
	for _, p := range h.peers {
		fmt.Fprintf(&b, "|%s:%s", p.name, p.state)
		if p.sp != nil {
			la := "-"
			if x := p.sp.LastAnnouncedBlock(); x != nil {
				la = h.f.label(*x)
			}
			fmt.Fprintf(&b, ",%d,%s", p.sp.LastBlock(), la)
		}
	}
	b.WriteString("|cand:")
	var cs []string
	for e := h.cand.Front(); e != nil; e = e.Next() {
		for _, p := range h.peers {
			if p.sp == e.Value.(*ServerPeer) {
				cs = append(cs, p.name)
			}
		}
	}
	sort.Strings(cs)
	b.WriteString(strings.Join(cs, ","))
	return b.String()
}

type c01event struct {
	name string
	peer int
	kind string // new done hdr inv
	b    *c01batch
	inv  *verifchain.Node
}

func c01Body(t *testing.T, cfg c01cfg, depth, npeers int) func(c *verifeng.Chooser) {
	f := getC01Fixture(cfg)
	return func(c *verifeng.Chooser) {
		var env *verifhfs.Env
		out := verifbubble.Run(t, func() {
			env = verifhfs.NewEnv(c)
			env.Quiet = true
			env.MemFiles = !c01Faults
			c01Run(c, f, env, depth, npeers)
		})
		if env != nil {
			env.Cleanup()
		}
		switch {
		case out.Panic != nil:
			if ie, ok := out.Panic.(verifeng.InfraError); ok {
				panic(ie)
			}
			if c01Faults && strings.HasPrefix(fmt.Sprint(out.Panic), "Rollback failed:") {
				// the client gives up (panics) when a roll back
				// fails: the process dies, recovery is C08's subject
				c.Obs("the client panicked after a failed roll back")
				return
			}
			c.Fail("panic", "panic:"+firstWords(fmt.Sprint(out.Panic)), "%v", out.Panic)
		case out.Deadlock != "":
			c.Fail("stuck", "controller-deadlock", "%s", out.Deadlock)
		case out.Hang:
			c.Fail("hang", "hang", "the bubble never became quiescent")
		case out.Leak != "" && !c.Failed():
			c.Fail("leak", "goroutines-left", "%s", out.Leak)
		}
	}
}

func firstWords(s string) string {
	if i := strings.IndexByte(s, '\n'); i >= 0 {
		s = s[:i]
	}
	if len(s) > 80 {
		s = s[:80]
	}
	return s
}

func c01Run(c *verifeng.Chooser, f *c01fix, env *verifhfs.Env, depth, npeers int) {
	h := &c01h{c: c, f: f, env: env, cand: list.New()}
	var err error
	h.bs, err = headerfs.NewBlockHeaderStore(env.Dir, env.DB, f.params)
	if err != nil {
		panic(verifeng.InfraError{Msg: "setup: " + err.Error()})
	}
	h.fs, err = headerfs.NewFilterHeaderStore(env.Dir, env.DB, headerfs.RegularFilter, f.params, nil)
	if err != nil {
		panic(verifeng.InfraError{Msg: "setup: " + err.Error()})
	}
	h.bm, err = newBlockManager(&blockManagerCfg{
		ChainParams:      *f.params,
		BlockHeaders:     h.bs,
		RegFilterHeaders: h.fs,
		TimeSource:       vfxTime{f.now},
		BanPeer:          func(string, banman.Reason) error { return nil },
	})
	if err != nil {
		panic(verifeng.InfraError{Msg: "setup: " + err.Error()})
	}
	// the subscription manager normally drains the notification channel
	stopDrain := make(chan struct{})
	go func() {
		for {
			select {
			case n := <-h.bm.Notifications():
				h.ntfns = append(h.ntfns, n)
			case <-stopDrain:
				return
			}
		}
	}()
	defer close(stopDrain)
	srv := &ChainService{}
	for i := 0; i < npeers; i++ {
		h.peers = append(h.peers, &c01peer{name: string(rune('A' + i)), height: int32(c01TrunkLen)})
	}
	defer func() {
		for _, p := range h.peers {
			if p.sp != nil {
				p.sp.Disconnect()
			}
		}
		verifbubble.Wait()
	}()

	// the events offered in the current state
	menu := func() []c01event {
		var m []c01event
		for i, p := range h.peers {
			switch p.state {
			case "":
				m = append(m, c01event{name: "new-peer(" + p.name + ")", peer: i, kind: "new"})
			case "up":
				for bi := range f.batches {
					b := &f.batches[bi]
					m = append(m, c01event{name: p.name + ":headers[" + b.name + "]", peer: i, kind: "hdr", b: b})
				}
				m = append(m, c01event{name: p.name + ":inv[T3]", peer: i, kind: "inv", inv: f.trunk[3]})
				m = append(m, c01event{name: p.name + ":inv[T7]", peer: i, kind: "inv", inv: f.trunk[c01TrunkLen]})
				m = append(m, c01event{name: "done-peer(" + p.name + ")", peer: i, kind: "done"})
			case "kicked":
				m = append(m, c01event{name: "done-peer(" + p.name + ")", peer: i, kind: "done"})
			}
		}
		return m
	}

	before, bad := h.checkC01()
	if bad != "" {
		panic(verifeng.InfraError{Msg: "initial store: " + bad})
	}
	for d := 0; d < depth; d++ {
		if c.Visit(h.key(before), depth-d) {
			return
		}
		m := menu()
		if len(m) == 0 {
			break
		}
		ev := m[c.ChooseFree(len(m), "event")]
		p := h.peers[ev.peer]
		synced := h.bm.BlockHeadersSynced()
		wasSync := p.sp != nil && h.bm.SyncPeer() == p.sp
		listTip := h.bm.headerList.Back().Header.BlockHash()
		faulted := false
		switch ev.kind {
		case "new":
			sp, r, err := vfxNewPeer(srv, f.params, fmt.Sprintf("10.0.0.%d:18444", ev.peer+1),
				wire.SFNodeNetwork|wire.SFNodeWitness|wire.SFNodeCF, p.height, nil)
			if err != nil {
				panic(verifeng.InfraError{Msg: err.Error()})
			}
			verifbubble.Wait()
			if !r.ready {
				panic(verifeng.InfraError{Msg: "handshake with simulated peer did not complete"})
			}
			p.sp, p.remote, p.state = sp, r, "up"
			h.bm.handleNewPeerMsg(h.cand, sp)
		case "done":
			if p.state == "up" {
				p.sp.Disconnect()
			}
			p.state = "done"
			h.bm.handleDonePeerMsg(h.cand, p.sp)
		case "hdr":
			msg := wire.NewMsgHeaders()
			for _, n := range ev.b.nodes {
				hd := n.Hdr
				msg.Headers = append(msg.Headers, &hd)
			}
			devBefore := len(env.Deviated)
			if c01Faults {
				// one store write of this message may fail (DESIGN 5.1,
				// sixth session): every durable step is a choice point
				env.Quiet, env.Faults = false, true
				env.BeginOp()
			}
			h.bm.handleHeadersMsg(&headersMsg{headers: msg, peer: p.sp})
			if c01Faults {
				env.Quiet, env.Faults = true, false
				faulted = len(env.Deviated) > devBefore
			}
		case "inv":
			inv := wire.NewMsgInv()
			inv.AddInvVect(wire.NewInvVect(wire.InvTypeBlock, &ev.inv.Hash))
			h.bm.handleInvMsg(&invMsg{inv: inv, peer: p.sp})
		}
		verifbubble.Wait()
		kicked := ""
		for _, q := range h.peers {
			if q.state == "up" && q.remote.isClosed() {
				q.state = "kicked"
				kicked += q.name
			}
		}
		if faulted {
			c.Step("%s [a store write failed: %s]", ev.name, env.Deviated[len(env.Deviated)-1])
		} else {
			c.Step("%s", ev.name)
		}

		// ---- C01
		oracle := os.Getenv("VFX_ORACLE")
		after, bad := h.checkC01()
		if bad != "" && oracle == "C02" {
			// not this check's clause; judge the transition if the chain
			// is still readable, then stop this history.
			if after != nil {
				h.checkC02(ev, p, before, after, synced, wasSync, listTip)
			}
			c.Obs("(stopped: C01 clause violated)")
			return
		}
		if bad != "" {
			kind := "invalid-header-stored"
			if strings.HasPrefix(bad, "lookups disagree") {
				kind = "lookups-disagree"
			} else if strings.Contains(bad, "checkpoint") {
				kind = "checkpoint-violated"
			}
			c.Fail("C01", "C01:"+kind, "after %s: %s; chain by height: %s", ev.name, bad, h.chainLabels(after))
			return
		}
		// ---- C02
		// (a message during which a store write failed is not held to the
		// transition rules: what it leaves must be a valid chain, and the
		// messages after it are judged as usual)
		if oracle != "C01" && !faulted && h.checkC02(ev, p, before, after, synced, wasSync, listTip) {
			return
		}
		for _, cp := range f.params.Checkpoints {
			if int(cp.Height) < len(after) && cp.Height > h.reached {
				h.reached = cp.Height
			}
		}
		before = after
	}
	c.Obs(h.chainLabels(before))
}

// checkC02 judges one transition of the store.
func (h *c01h) checkC02(ev c01event, p *c01peer, before, after []wire.BlockHeader,
	synced, wasSync bool, listTip chainhash.Hash) bool {

	f, c := h.f, h.c
	common := 0
	for common < len(before) && common < len(after) && before[common] == after[common] {
		common++
	}
	changed := len(before) != len(after) || common != len(before)
	if ev.kind != "hdr" {
		if changed {
			return c.Fail("C02", "C02:store-changed-without-headers", "%s changed the stored chain from [%s] to [%s]", ev.name, h.chainLabels(before), h.chainLabels(after))
		}
		return false
	}
	// classify the batch with the reference validator
	batch := ev.b.nodes
	allValid := len(batch) > 0
	for i, n := range batch {
		if n.Invalid != "" {
			allValid = false
		}
		if i > 0 && n.Parent != batch[i-1] {
			allValid = false
		}
	}
	cpHeights := map[int32]bool{}
	for _, cp := range f.params.Checkpoints {
		cpHeights[cp.Height] = true
	}
	if changed {
		removed := before[common:]
		added := after[common:]
		if len(removed) > 0 {
			// a reorganisation (or a checkpoint discard)
			if int32(common-1) < h.reached {
				// the only legal way to lose headers at/below a reached
				// checkpoint... is none: discards go back TO a checkpoint
				return c.Fail("C02", "C02:reorg-below-checkpoint", "%s replaced headers from height %d although the chain had reached the checkpoint at %d: [%s] -> [%s]",
					ev.name, common, h.reached, h.chainLabels(before), h.chainLabels(after))
			}
			if len(added) == 0 {
				// pure truncation: legal only as a checkpoint-mismatch discard
				mismatch := false
				for _, n := range batch {
					if cpHeights[n.Height] && n.Hash != f.trunk[n.Height].Hash {
						mismatch = true
					}
				}
				if !mismatch || !cpHeights[int32(common-1)] && common-1 != 0 {
					return c.Fail("C02", "C02:headers-discarded", "%s discarded accepted headers without replacing them: [%s] -> [%s]",
						ev.name, h.chainLabels(before), h.chainLabels(after))
				}
				return false
			}
			if workOf(added).Cmp(workOf(removed)) <= 0 {
				return c.Fail("C02", "C02:reorg-not-heavier", "%s replaced [%s] (work %v) by [%s] (work %v), which is not strictly more work",
					ev.name, h.chainLabels(removed), workOf(removed), h.chainLabels(added), workOf(added))
			}
		}
		// every added header comes from this message, in order
		bi := 0
		for _, a := range added {
			found := false
			for ; bi < len(batch); bi++ {
				if batch[bi].Hdr == a {
					found = true
					bi++
					break
				}
			}
			if !found {
				return c.Fail("C02", "C02:foreign-header-added", "%s added %s, which is not (in order) part of the message", ev.name, f.label(a.BlockHash()))
			}
		}
	}
	// total work never decreases except at checkpoint discards (judged above)
	if workOf(after).Cmp(workOf(before)) < 0 && len(after[common:]) > 0 {
		return c.Fail("C02", "C02:work-decreased", "%s decreased the chain's total work", ev.name)
	}
	// completeness: a fully valid batch that extends the tip, or forms a
	// strictly heavier branch above the checkpoint floor from a peer the
	// client listens to, is adopted in full (or up to a checkpoint inside it).
	if allValid && p.state != "kicked" {
		first := batch[0]
		last := batch[len(batch)-1]
		storeTip := before[len(before)-1].BlockHash()
		want := false
		why := ""
		switch {
		case first.Hdr.PrevBlock == storeTip && listTip == storeTip:
			want, why = true, "extends the tip"
		case first.Parent != nil && (wasSync || synced):
			// a branch: find the fork point on the stored chain
			fp := int(first.Parent.Height)
			if fp < len(before) && before[fp].BlockHash() == first.Parent.Hash && fp+1 < len(before) &&
				int32(fp) >= h.reached && before[fp+1].BlockHash() != first.Hash {
				var branch []wire.BlockHeader
				for _, n := range batch {
					branch = append(branch, n.Hdr)
				}
				if workOf(branch).Cmp(workOf(before[fp+1:])) > 0 {
					want, why = true, "strictly heavier branch"
				}
			}
		}
		if want {
			tip := after[len(after)-1].BlockHash()
			ok := tip == last.Hash
			if !ok {
				// stopping at a checkpoint inside the batch is accepted
				for _, n := range batch {
					if cpHeights[n.Height] && tip == n.Hash && n.Hash == f.trunk[n.Height].Hash {
						ok = true
					}
				}
			}
			// a batch that runs into a checkpoint mismatch is not "fully valid"
			for _, n := range batch {
				if cpHeights[n.Height] && n.Hash != f.trunk[n.Height].Hash {
					ok = true
				}
			}
			if !ok {
				return c.Fail("C02", "C02:valid-batch-not-adopted:"+strings.Fields(why)[0],
					"%s is fully valid and %s (sender is sync peer: %v, client current: %v) but the chain went [%s] -> [%s]",
					ev.name, why, wasSync, synced, h.chainLabels(before), h.chainLabels(after))
			}
		}
	}
	return false
}

func c01Configs(tier string) []c01cfg {
	cfgs := []c01cfg{
		{name: "plain"},
		{name: "retarget4", retarget: 4},
		{name: "checkpoint2", checkpoints: []int{2}},
		{name: "checkpoints2,4", checkpoints: []int{2, 4}},
	}
	if tier == "thorough" {
		cfgs = append(cfgs,
			c01cfg{name: "retarget4-mindiff", retarget: 4, minDiff: true},
			c01cfg{name: "retarget4-checkpoint4-stale", retarget: 4, checkpoints: []int{4}, stale: true},
			c01cfg{name: "plain-stale", stale: true},
		)
	}
	return cfgs
}

// c01Faults selects the configuration in which one store write per history
// may fail while a headers message is handled.
var c01Faults bool

func runC01(t *testing.T, harness string) {
	tier := verifeng.Tier()
	depth, npeers := 5, 2
	if tier == "thorough" {
		depth, npeers = 6, 3
	}
	if rp := os.Getenv("VFX_REPLAY"); rp != "" {
		v, err := verifeng.LoadReplay(rp)
		if err != nil {
			t.Fatal(err)
		}
		var name string
		fmt.Sscanf(v.Config, "cfg=%s depth=%d peers=%d", &name, &depth, &npeers)
		c01Faults = strings.Contains(v.Config, "store write fails")
		for _, cf := range c01Configs("thorough") {
			if cf.name == name {
				e := verifeng.FromEnv(v.Harness, v.Config)
				_, x, err := e.ReplayFile(rp, c01Body(t, cf, depth, npeers))
				if err != nil {
					t.Fatal(err)
				}
				if x.Viol != nil {
					fmt.Printf("REPLAY-VIOLATION clause=%s sig=%s\n%s\n", x.Viol.Clause, x.Viol.Sig, x.Viol.Detail)
				} else {
					fmt.Println("REPLAY-OK no violation")
				}
			}
		}
		return
	}
	for _, cf := range c01Configs(tier) {
		e := verifeng.FromEnv(harness, fmt.Sprintf("cfg=%s depth=%d peers=%d batches=%d", cf.name, depth, npeers, len(getC01Fixture(cf).batches)))
		e.Dedupe = true
		e.ShardDepth = 2
		e.MaxViol = 12
		e.Run(c01Body(t, cf, depth, npeers))
		if err := verifeng.AppendResult(&e.Res); err != nil {
			t.Fatal(err)
		}
	}
	// one failing store write per history, shallower
	for _, cf := range c01Configs(tier) {
		if cf.name != "plain" && cf.name != "checkpoints2,4" {
			continue
		}
		c01Faults = true
		fd := depth - 2
		if cf.name != "plain" {
			// a checkpoint batch whose write fails, and what follows
			fd = depth - 1
		}
		e := verifeng.FromEnv(harness, fmt.Sprintf("cfg=%s depth=%d peers=%d batches=%d one store write fails", cf.name, fd, npeers, len(getC01Fixture(cf).batches)))
		e.Dedupe = true
		e.ShardDepth = 2
		e.MaxViol = 12
		e.MaxDev = 1
		e.Run(c01Body(t, cf, fd, npeers))
		c01Faults = false
		if err := verifeng.AppendResult(&e.Res); err != nil {
			t.Fatal(err)
		}
	}
}

func TestVFXC01(t *testing.T) { runC01(t, "C01C02-headers") }

package neutrino

import (
	"fmt"
	"testing"
	"testing/synctest"
	"time"

	"github.com/btcsuite/btcd/chaincfg/v2"
	"github.com/btcsuite/btcd/wire/v2"
)

func TestVFXProbePeer(t *testing.T) {
	t0 := time.Now()
	for i := 0; i < 200; i++ {
		synctest.Test(t, func(t *testing.T) {
			params := chaincfg.RegressionNetParams
			sp, r, err := vfxNewPeer(&ChainService{}, &params, "10.0.0.1:18444", wire.SFNodeNetwork|wire.SFNodeWitness|wire.SFNodeCF, 7, nil)
			if err != nil {
				t.Fatal(err)
			}
			synctest.Wait()
			if i == 0 {
				fmt.Println("ready", r.ready, "services", sp.Services(), "start", sp.StartingHeight(), "last", sp.LastBlock(), "connected", sp.Connected(), "verack", sp.VerAckReceived())
			}
			sp.PushGetHeadersMsg(nil, &zeroHash)
			synctest.Wait()
			if i == 0 {
				fmt.Println("getheaders seen:", len(r.takeGetHeaders()))
			}
			sp.Disconnect()
			synctest.Wait()
			if i == 0 {
				fmt.Println("closed", r.isClosed())
			}
			sp.WaitForDisconnect()
		})
	}
	fmt.Println("200 handshakes", time.Since(t0))
}

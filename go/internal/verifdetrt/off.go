//go:build !vfxdetrt

package verifdetrt

// On reports whether the determinised runtime is linked in.
const On = false

// Reset is a no-op with the stock runtime.
func Reset() {}

// SetDelay is a no-op with the stock runtime.
func SetDelay(at int, starve bool) {}

// DelayCount is 0 with the stock runtime.
func DelayCount() int { return 0 }

// SetSelect is a no-op with the stock runtime.
func SetSelect(at int) {}

// SelectCount is 0 with the stock runtime.
func SelectCount() int { return 0 }

// Goid is not available with the stock runtime.
func Goid() uint64 { return 0 }

// Classes of synchronisation points (see on.go).
const (
	SyncMutex = 1
	SyncSpawn = 2
	SyncChan  = 4
)

// SetSync is a no-op with the stock runtime.
func SetSync(at int, mask uint32) {}

// SyncCount is 0 with the stock runtime.
func SyncCount() int { return 0 }

// SyncPoint is a no-op with the stock runtime.
func SyncPoint() {}

//go:build !vfxdetrt

package verifdetrt

// On reports whether the determinised runtime is linked in.
const On = false

// Reset is a no-op with the stock runtime.
func Reset() {}

//go:build vfxdetrt

// Package verifdetrt resets the determinised runtime (bin/check builds the
// Q-style harnesses with four small patches to go1.26.8's runtime applied by
// build overlay: counter-based runtime.rand, fixed hash keys, zero map
// iteration offsets, fixed select poll order).
package verifdetrt

import "runtime"

// On reports whether the determinised runtime is linked in.
const On = true

// Reset restarts the runtime's random stream: an execution that starts with
// Reset is a pure function of its choice list, also in a fresh process.
func Reset() { runtime.VfxResetRand(0) }

// SetDelay arms one scheduler deviation (delay-bounded scheduling): at the
// at-th scheduling decision from now at which more than one goroutine of the
// bubble is runnable, the goroutine whose turn it is goes to the back of the
// run queue - once, or (starve) every time its turn comes while something else
// is runnable. at=0 disarms. The decision count restarts.
func SetDelay(at int, starve bool) { runtime.VfxSetDelay(uint32(at), starve) }

// DelayCount returns the number of such decisions since SetDelay.
func DelayCount() int { return int(runtime.VfxDelayCount()) }

// SetSelect arms one select deviation: at the at-th select from now that finds
// more than one case ready, the case the fixed poll order would take is tried
// last. at=0 disarms. The count restarts.
func SetSelect(at int) { runtime.VfxSetSelect(uint32(at)) }

// SelectCount returns the number of such selects since SetSelect.
func SelectCount() int { return int(runtime.VfxSelectCount()) }

// Goid returns the id of the calling goroutine.
func Goid() uint64 { return runtime.VfxGoid() }

// Classes of synchronisation points at which SetSync can preempt.
const (
	SyncMutex = 1 // before Lock/RLock, after Unlock/RUnlock (verifldep wrappers)
	SyncSpawn = 2 // after a go statement (the new goroutine runs first)
	SyncChan  = 4 // before a channel send/receive/close, a select
)

// SetSync arms one preemption: at the at-th synchronisation point from now (of
// the classes in mask) at which another goroutine of the bubble is runnable,
// the running goroutine yields the processor and goes to the back of the run
// queue. at=0 only counts. The count restarts.
func SetSync(at int, mask uint32) { runtime.VfxSetSync(uint32(at), mask) }

// SyncCount returns the number of such points since SetSync.
func SyncCount() int { return int(runtime.VfxSyncCount()) }

// SyncPoint is called by the mutex wrappers (class SyncMutex).
func SyncPoint() { runtime.VfxSyncPoint() }

//go:build vfxdetrt

// Package verifdetrt resets the determinised runtime (bin/check builds the
// Q-style harnesses with four small patches to go1.26.8's runtime applied by
// build overlay: counter-based runtime.rand, fixed hash keys, zero map
// iteration offsets, fixed select poll order).
package verifdetrt

import "runtime"

// On reports whether the determinised runtime is linked in.
const On = true

// Reset restarts the runtime's random stream: an execution that starts with
// Reset is a pure function of its choice list, also in a fresh process.
func Reset() { runtime.VfxResetRand(0) }

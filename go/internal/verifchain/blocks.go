package verifchain

import (
	"fmt"
	"time"

	"github.com/btcsuite/btcd/blockchain"
	"github.com/btcsuite/btcd/btcutil/v2"
	"github.com/btcsuite/btcd/btcutil/v2/gcs"
	"github.com/btcsuite/btcd/btcutil/v2/gcs/builder"
	"github.com/btcsuite/btcd/chaincfg/v2"
	"github.com/btcsuite/btcd/chainhash/v2"
	"github.com/btcsuite/btcd/txscript/v2"
	"github.com/btcsuite/btcd/wire/v2"
)

// BlockData is the full block behind a Node, with its true BIP158 basic
// filter and a false one (omitting one output script of a two-output
// transaction, which makes it provably inconsistent with the block).
type BlockData struct {
	Block      *wire.MsgBlock
	Filter     *gcs.Filter
	FilterHash chainhash.Hash
	BadFilter  *gcs.Filter
	BadHash    chainhash.Hash
	Scripts    [][]byte
}

// script returns a distinct, standard-looking (P2WPKH shaped) pk script.
func script(height int32, salt uint32, i byte) []byte {
	s := make([]byte, 22)
	s[0], s[1] = 0x00, 0x14
	s[2], s[3], s[4], s[5] = byte(height), byte(salt), byte(salt>>8), i
	for j := 6; j < 22; j++ {
		s[j] = byte(j) ^ i ^ byte(height)
	}
	return s
}

// oddScript is a non-OP_RETURN script that fails to parse.
func oddScript(height int32, salt uint32) []byte {
	return []byte{0x51, 0x4b, byte(height), byte(salt), byte(salt >> 8)}
}

// MineBlock mines a valid child of parent that carries a coinbase and one
// ordinary transaction with two outputs, and computes its filters.
func MineBlock(p *chaincfg.Params, parent *Node, spacing time.Duration, salt uint32, label string) (*Node, *BlockData) {
	return mineBlock(p, parent, spacing, salt, label, false)
}

// MineSegwitBlock is MineBlock with a witness-carrying transaction and a valid
// witness commitment in the coinbase.
func MineSegwitBlock(p *chaincfg.Params, parent *Node, spacing time.Duration, salt uint32, label string) (*Node, *BlockData) {
	return mineBlock(p, parent, spacing, salt, label, true)
}

func mineBlock(p *chaincfg.Params, parent *Node, spacing time.Duration, salt uint32, label string, segwit bool) (*Node, *BlockData) {
	height := parent.Height + 1
	cb := wire.NewMsgTx(2)
	cb.AddTxIn(wire.NewTxIn(&wire.OutPoint{Index: 0xffffffff}, []byte{byte(height), byte(salt), 0x01}, nil))
	cb.AddTxOut(wire.NewTxOut(50e8, script(height, salt, 1)))
	tx := wire.NewMsgTx(2)
	var prev chainhash.Hash
	prev[0], prev[1], prev[2] = byte(height), byte(salt), 0x77
	tx.AddTxIn(wire.NewTxIn(&wire.OutPoint{Hash: prev, Index: 0}, []byte{0x51}, nil))
	tx.AddTxOut(wire.NewTxOut(1e8, script(height, salt, 2)))
	tx.AddTxOut(wire.NewTxOut(2e8, script(height, salt, 3)))
	// a third output whose script does not parse (a push of 75 bytes that
	// are not there) and is no OP_RETURN: BIP158 filters contain it
	tx.AddTxOut(wire.NewTxOut(3e8, oddScript(height, salt)))
	var prevScripts [][]byte
	if segwit {
		// a witness spend (shaped like P2WPKH) and the coinbase's commitment
		pub := make([]byte, 33)
		pub[0], pub[1], pub[2] = 0x02, byte(height), byte(salt)
		tx.TxIn[0].SignatureScript = nil
		tx.TxIn[0].Witness = wire.TxWitness{{0x30, 0x01, byte(salt)}, pub}
		if ps, err := txscript.ComputePkScript(nil, tx.TxIn[0].Witness); err == nil {
			prevScripts = append(prevScripts, ps.Script())
		}
		nonce := make([]byte, 32)
		cb.TxIn[0].Witness = wire.TxWitness{nonce}
		wroot := blockchain.CalcMerkleRoot(
			btcutil.NewBlock(&wire.MsgBlock{Transactions: []*wire.MsgTx{cb, tx}}).Transactions(), true)
		commit := chainhash.DoubleHashB(append(wroot[:], nonce...))
		cb.AddTxOut(wire.NewTxOut(0, append(append([]byte{}, blockchain.WitnessMagicBytes...), commit...)))
	}
	blk := &wire.MsgBlock{Transactions: []*wire.MsgTx{cb, tx}}
	ub := btcutil.NewBlock(blk)
	root := blockchain.CalcMerkleRoot(ub.Transactions(), false)

	ts := parent.Hdr.Timestamp.Add(spacing)
	h := wire.BlockHeader{Version: 0x20000000, PrevBlock: parent.Hash, MerkleRoot: root,
		Timestamp: ts, Bits: RequiredBits(p, parent, ts)}
	for n := uint32(0); ; n++ {
		h.Nonce = n
		if powOK(&h) {
			break
		}
	}
	blk.Header = h
	node := Adopt(parent, h, label)
	f, err := builder.BuildBasicFilter(blk, prevScripts)
	if err != nil {
		panic(err)
	}
	fhash, err := builder.GetFilterHash(f)
	if err != nil {
		panic(err)
	}
	// the false filter: every script but the last output of the ordinary tx
	// (the one that does not parse)
	bf, err := builder.WithKeyHash(&node.Hash).AddEntries([][]byte{
		script(height, salt, 1), script(height, salt, 2), script(height, salt, 3)}).Build()
	if err != nil {
		panic(err)
	}
	bhash, err := builder.GetFilterHash(bf)
	if err != nil {
		panic(err)
	}
	if bhash == fhash {
		panic(fmt.Sprintf("false filter of %s equals the true one", label))
	}
	return node, &BlockData{Block: blk, Filter: f, FilterHash: fhash, BadFilter: bf, BadHash: bhash,
		Scripts: [][]byte{script(height, salt, 1), script(height, salt, 2), script(height, salt, 3), oddScript(height, salt)}}
}

// NextFilterHeader chains a filter hash onto the previous filter header.
func NextFilterHeader(filterHash, prev chainhash.Hash) chainhash.Hash {
	return chainhash.DoubleHashH(append(filterHash[:], prev[:]...))
}

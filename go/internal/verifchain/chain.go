// Package verifchain generates small block trees for the checks under /verif:
// headers with real proof of work under regtest-derived parameters, labelled
// invalid variants, and an independent reference validator (btcd's own header
// checks over a plain parent-pointer context, none of neutrino's contexts).
package verifchain

import (
	"fmt"
	"math/big"
	"time"

	"github.com/btcsuite/btcd/blockchain"
	"github.com/btcsuite/btcd/chaincfg/v2"
	"github.com/btcsuite/btcd/chainhash/v2"
	"github.com/btcsuite/btcd/wire/v2"
)

// Opt selects the chain parameters.
type Opt struct {
	// Retarget is the retarget interval in blocks (0: regtest behaviour, no
	// retargeting).
	Retarget int
	// MinDiff enables the testnet-style minimum difficulty rule.
	MinDiff bool
	// Net is the network magic (0: regtest's).
	Net wire.BitcoinNet
}

// Params derives chain parameters from regtest.
func Params(o Opt) *chaincfg.Params {
	p := chaincfg.RegressionNetParams
	p.Checkpoints = nil
	if o.Net != 0 {
		p.Net = o.Net
		p.Name = fmt.Sprintf("vfx-%x", uint32(o.Net))
	}
	if o.Retarget > 0 {
		p.PoWNoRetargeting = false
		p.TargetTimePerBlock = 10 * time.Minute
		p.TargetTimespan = time.Duration(o.Retarget) * p.TargetTimePerBlock
		p.RetargetAdjustmentFactor = 4
	}
	p.ReduceMinDifficulty = o.MinDiff
	p.MinDiffReductionTime = 20 * time.Minute
	return &p
}

// Node is one block header in the tree.
type Node struct {
	Hdr    wire.BlockHeader
	Hash   chainhash.Hash
	Height int32
	Parent *Node
	Work   *big.Int // cumulative
	Label  string
	// Invalid is "" for a header that is valid in its context, else the
	// rule it breaks.
	Invalid string
}

func (n *Node) String() string {
	if n == nil {
		return "nil"
	}
	return n.Label
}

// refCtx implements blockchain.HeaderCtx over parent pointers.
type refCtx struct{ n *Node }

func (r refCtx) Height() int32    { return r.n.Height }
func (r refCtx) Bits() uint32     { return r.n.Hdr.Bits }
func (r refCtx) Timestamp() int64 { return r.n.Hdr.Timestamp.Unix() }
func (r refCtx) Parent() blockchain.HeaderCtx {
	if r.n.Parent == nil {
		return nil
	}
	return refCtx{r.n.Parent}
}
func (r refCtx) RelativeAncestorCtx(d int32) blockchain.HeaderCtx {
	n := r.n
	for i := int32(0); i < d; i++ {
		if n.Parent == nil {
			return nil
		}
		n = n.Parent
	}
	return refCtx{n}
}

// refChain implements blockchain.ChainCtx.
type refChain struct{ p *chaincfg.Params }

func (c refChain) ChainParams() *chaincfg.Params { return c.p }
func (c refChain) BlocksPerRetarget() int32 {
	return int32(c.p.TargetTimespan / c.p.TargetTimePerBlock)
}
func (c refChain) MinRetargetTimespan() int64 {
	return int64(c.p.TargetTimespan/time.Second) / c.p.RetargetAdjustmentFactor
}
func (c refChain) MaxRetargetTimespan() int64 {
	return int64(c.p.TargetTimespan/time.Second) * c.p.RetargetAdjustmentFactor
}
func (c refChain) VerifyCheckpoint(int32, *chainhash.Hash) bool          { return true }
func (c refChain) FindPreviousCheckpoint() (blockchain.HeaderCtx, error) { return nil, nil }

type fixedTime struct{ t time.Time }

func (f fixedTime) AdjustedTime() time.Time         { return f.t }
func (f fixedTime) AddTimeSample(string, time.Time) {}
func (f fixedTime) Offset() time.Duration           { return 0 }

// Genesis returns the node of the network's genesis block.
func Genesis(p *chaincfg.Params) *Node {
	h := p.GenesisBlock.Header
	return &Node{Hdr: h, Hash: h.BlockHash(), Height: 0, Label: "G",
		Work: blockchain.CalcWork(h.Bits)}
}

// Check validates header h as a child of parent with btcd's own rules
// (difficulty, median time, future time, proof of work), checkpoints aside.
func Check(p *chaincfg.Params, parent *Node, h *wire.BlockHeader, now time.Time) error {
	if h.PrevBlock != parent.Hash {
		return fmt.Errorf("does not name its predecessor")
	}
	if err := blockchain.CheckBlockHeaderContext(h, refCtx{parent},
		blockchain.BFNone, refChain{p}, true); err != nil {
		return err
	}
	return blockchain.CheckBlockHeaderSanity(h, p.PowLimit, fixedTime{now}, blockchain.BFNone)
}

// RequiredBits computes the difficulty a child of parent with the given
// timestamp must carry, by searching the (tiny) candidate set with btcd's
// contextual check.
func RequiredBits(p *chaincfg.Params, parent *Node, ts time.Time) uint32 {
	cands := []uint32{parent.Hdr.Bits, p.PowLimitBits}
	// candidates from a retarget: scale the parent's target
	old := blockchain.CompactToBig(parent.Hdr.Bits)
	for num := int64(1); num <= 16; num++ {
		for _, den := range []int64{1, 2, 4, 8, 16} {
			t := new(big.Int).Mul(old, big.NewInt(num))
			t.Div(t, big.NewInt(den))
			if t.Cmp(p.PowLimit) > 0 {
				t.Set(p.PowLimit)
			}
			cands = append(cands, blockchain.BigToCompact(t))
		}
	}
	// walk back for the testnet rule
	for n := parent; n != nil; n = n.Parent {
		cands = append(cands, n.Hdr.Bits)
	}
	for _, b := range cands {
		h := wire.BlockHeader{Version: 0x20000000, PrevBlock: parent.Hash, Timestamp: ts, Bits: b}
		err := blockchain.CheckBlockHeaderContext(&h, refCtx{parent}, blockchain.BFNone, refChain{p}, true)
		if err == nil {
			return b
		}
		if re, ok := err.(blockchain.RuleError); ok && re.ErrorCode == blockchain.ErrUnexpectedDifficulty {
			continue
		}
		// some other rule (time) fails: bits are fine
		return b
	}
	// exact retarget arithmetic with an arbitrary timespan
	return exactBits(p, parent, ts)
}

func exactBits(p *chaincfg.Params, parent *Node, ts time.Time) uint32 {
	c := refChain{p}
	first := refCtx{parent}.RelativeAncestorCtx(c.BlocksPerRetarget() - 1)
	if first == nil {
		return parent.Hdr.Bits
	}
	span := parent.Hdr.Timestamp.Unix() - first.Timestamp()
	if span < c.MinRetargetTimespan() {
		span = c.MinRetargetTimespan()
	} else if span > c.MaxRetargetTimespan() {
		span = c.MaxRetargetTimespan()
	}
	t := new(big.Int).Mul(blockchain.CompactToBig(parent.Hdr.Bits), big.NewInt(span))
	t.Div(t, big.NewInt(int64(p.TargetTimespan/time.Second)))
	if t.Cmp(p.PowLimit) > 0 {
		t.Set(p.PowLimit)
	}
	return blockchain.BigToCompact(t)
}

// PowOK reports whether the header's hash meets the target its bits encode.
func PowOK(h *wire.BlockHeader) bool { return powOK(h) }

func powOK(h *wire.BlockHeader) bool {
	hash := h.BlockHash()
	return blockchain.HashToBig(&hash).Cmp(blockchain.CompactToBig(h.Bits)) <= 0
}

// Mine returns a valid child of parent: correct difficulty, timestamp
// parent+spacing, proof of work found by iterating the nonce. salt makes
// siblings distinct.
func Mine(p *chaincfg.Params, parent *Node, spacing time.Duration, salt uint32, label string) *Node {
	ts := parent.Hdr.Timestamp.Add(spacing)
	return MineAt(p, parent, ts, RequiredBits(p, parent, ts), salt, label, true)
}

// MineAt builds a child with explicit timestamp and bits; wantPoW selects a
// nonce that does (or deliberately does not) satisfy the target.
func MineAt(p *chaincfg.Params, parent *Node, ts time.Time, bits uint32, salt uint32, label string, wantPoW bool) *Node {
	var mr chainhash.Hash
	mr[0], mr[1], mr[2], mr[3] = byte(salt), byte(salt>>8), byte(parent.Height+1), 0xc5
	h := wire.BlockHeader{Version: 0x20000000, PrevBlock: parent.Hash, MerkleRoot: mr,
		Timestamp: ts, Bits: bits}
	for n := uint32(0); ; n++ {
		h.Nonce = n
		if powOK(&h) == wantPoW {
			break
		}
		if n > 1<<26 {
			panic("verifchain: cannot find nonce")
		}
	}
	return Adopt(parent, h, label)
}

// Adopt wraps an arbitrary header as a child node of parent.
func Adopt(parent *Node, h wire.BlockHeader, label string) *Node {
	w := new(big.Int).Add(parent.Work, blockchain.CalcWork(h.Bits))
	return &Node{Hdr: h, Hash: h.BlockHash(), Height: parent.Height + 1, Parent: parent,
		Work: w, Label: label}
}

// Chain mines n valid successors of from, 10 minutes apart.
func Chain(p *chaincfg.Params, from *Node, n int, salt uint32, prefix string) []*Node {
	var out []*Node
	cur := from
	for i := 0; i < n; i++ {
		cur = Mine(p, cur, 10*time.Minute, salt, fmt.Sprintf("%s%d", prefix, cur.Height+1))
		out = append(out, cur)
	}
	return out
}

// Path returns the nodes from genesis to n.
func Path(n *Node) []*Node {
	var rev []*Node
	for ; n != nil; n = n.Parent {
		rev = append(rev, n)
	}
	for i, j := 0, len(rev)-1; i < j; i, j = i+1, j-1 {
		rev[i], rev[j] = rev[j], rev[i]
	}
	return rev
}

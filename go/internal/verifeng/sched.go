package verifeng

import (
	"fmt"
	"runtime/debug"
)

// Sched is a cooperative thread scheduler: threads are real goroutines that
// run only while holding the scheduler token, so between two scheduling points
// a thread is atomic. Every scheduling decision is a choice of the explorer; a
// switch away from a thread that could have continued costs one preemption.
type Sched struct {
	c        *Chooser
	threads  []*Thread
	cur      *Thread
	fin      chan struct{}
	abort    bool
	clock    int
	Deadlock bool
	Blocked  []string // names + reasons of threads blocked at deadlock
	Panic    string
	Switches int
	Points   int
}

// Thread is one scheduled thread.
type Thread struct {
	ID      int
	Name    string
	f       func()
	wake    chan struct{}
	done    bool
	started bool
	cond    func() bool
	why     string
}

type abortThread struct{}

var curSched *Sched

// CurSched returns the scheduler controlling the current execution, or nil.
func CurSched() *Sched { return curSched }

// NewSched creates a scheduler drawing its decisions from c and installs it
// as the current scheduler until Run returns.
func NewSched(c *Chooser) *Sched {
	return &Sched{c: c, fin: make(chan struct{}, 1)}
}

// Go registers a thread. Threads start when Run is called.
func (s *Sched) Go(name string, f func()) *Thread {
	t := &Thread{ID: len(s.threads), Name: name, f: f,
		wake: make(chan struct{}, 1)}
	s.threads = append(s.threads, t)
	return t
}

// Tick returns a fresh logical timestamp (for call/return stamps).
func (s *Sched) Tick() int { s.clock++; return s.clock }

// Cur returns the running thread.
func (s *Sched) Cur() *Thread { return s.cur }

func (t *Thread) enabled() bool {
	if t.done {
		return false
	}
	return t.cond == nil || t.cond()
}

// pick chooses the next thread to run; nil when none is enabled.
func (s *Sched) pick(label string) *Thread {
	var en []*Thread
	var costs []int
	curEnabled := s.cur != nil && s.cur.enabled()
	if curEnabled {
		en = append(en, s.cur)
		costs = append(costs, 0)
	}
	for _, t := range s.threads {
		if t == s.cur && curEnabled {
			continue
		}
		if t.enabled() {
			en = append(en, t)
			if curEnabled {
				costs = append(costs, 1)
			} else {
				costs = append(costs, 0)
			}
		}
	}
	if len(en) == 0 {
		return nil
	}
	i := 0
	if len(en) > 1 {
		i = s.c.ChooseCosts(costs, label)
	}
	return en[i]
}

func (s *Sched) start(t *Thread) {
	t.started = true
	go func() {
		<-t.wake
		defer func() {
			if r := recover(); r != nil {
				if _, ok := r.(abortThread); ok {
					return
				}
				if ie, ok := r.(InfraError); ok {
					s.Panic = "INFRA:" + ie.Msg
				} else if s.Panic == "" {
					s.Panic = fmt.Sprintf("%v\n%s", r, debug.Stack())
				}
			}
			t.done = true
			s.handoff("exit:" + t.Name)
		}()
		if s.abort {
			panic(abortThread{})
		}
		t.f()
	}()
}

// handoff is called by a thread that cannot continue (finished): passes the
// token on, or ends the run.
func (s *Sched) handoff(label string) {
	next := s.safePick(label)
	if next == nil {
		s.end()
		return
	}
	s.cur = next
	s.Switches++
	next.cond = nil
	next.wake <- struct{}{}
}

func (s *Sched) safePick(label string) (t *Thread) {
	defer func() {
		if r := recover(); r != nil {
			if ie, ok := r.(InfraError); ok {
				s.Panic = "INFRA:" + ie.Msg
			} else {
				s.Panic = fmt.Sprint(r)
			}
			t = nil
			s.abort = true
		}
	}()
	return s.pick(label)
}

func (s *Sched) end() {
	all := true
	for _, t := range s.threads {
		if !t.done {
			all = false
			s.Blocked = append(s.Blocked, t.Name+" waiting for "+t.why)
		}
	}
	if !all && s.Panic == "" && !s.abort {
		s.Deadlock = true
	}
	s.abort = true
	s.fin <- struct{}{}
}

// yield is called by the running thread at a scheduling point.
func (s *Sched) yield(label string) {
	me := s.cur
	s.Points++
	next := s.pick(label)
	if next == me {
		me.cond = nil
		return
	}
	if next == nil {
		// Nobody can run, including me: deadlock.
		s.end()
		<-me.wake // parked until abort
		panic(abortThread{})
	}
	s.cur = next
	s.Switches++
	next.cond = nil
	next.wake <- struct{}{}
	<-me.wake
	if s.abort {
		panic(abortThread{})
	}
}

// Point is a scheduling point before a visible operation.
func (s *Sched) Point(label string) {
	if s.cur == nil {
		return
	}
	s.yield(s.cur.Name + ":" + label)
}

// Wait blocks the running thread until cond holds. cond is evaluated by the
// scheduler while no thread runs.
func (s *Sched) Wait(why string, cond func() bool) {
	if cond() {
		return
	}
	if s.cur == nil {
		panic(fmt.Sprintf("deadlock: sequential caller blocks forever on %s", why))
	}
	s.cur.cond = cond
	s.cur.why = why
	s.yield(s.cur.Name + ":blocked:" + why)
}

// Run starts all threads and returns when all are done or none can run.
func (s *Sched) Run() {
	curSched = s
	defer func() { curSched = nil }()
	for _, t := range s.threads {
		s.start(t)
	}
	s.cur = nil
	first := s.safePick("start")
	if first == nil {
		return
	}
	s.cur = first
	first.wake <- struct{}{}
	<-s.fin
	// Release every parked thread so that no goroutine leaks.
	for _, t := range s.threads {
		if !t.done {
			select {
			case t.wake <- struct{}{}:
			default:
			}
		}
	}
	s.cur = nil
}

// Package verifeng is the stateless explorer used by every check under /verif.
//
// An execution is a pure function of its choice list. The explorer replays a
// prefix, takes choice 0 at every later choice point, records the menu size of
// every point, and then branches over every alternative of every point past
// the prefix (depth first). Optional features: deviation (cost) bounding,
// canonical-state pruning, sharding over worker processes, determinism audit,
// 5x confirmation of every violation.
//
// The package depends on the standard library only so that it can be mapped
// into any module by build overlay.
package verifeng

import (
	"crypto/sha256"
	"encoding/hex"
	"encoding/json"
	"fmt"
	"hash/fnv"
	"os"
	"runtime/debug"
	"sort"
	"strconv"
	"strings"
	"time"
)

// InfraError is panicked for harness/infrastructure problems (replay
// divergence, non-determinism). It is never reported as a violation.
type InfraError struct{ Msg string }

func (e InfraError) Error() string { return "INFRA: " + e.Msg }

// Violation describes one failing execution.
type Violation struct {
	Clause  string   `json:"clause"`
	Sig     string   `json:"sig"`
	Detail  string   `json:"detail"`
	Choices []int    `json:"choices"`
	Labels  []string `json:"labels"`
	Events  []string `json:"events"`
	Config  string   `json:"config"`
	Harness string   `json:"harness"`
}

type point struct {
	n     int
	costs []int // nil: alt 0 costs 0, others 1
	label string
}

func (p point) cost(alt int) int {
	if p.costs != nil {
		return p.costs[alt]
	}
	if alt == 0 {
		return 0
	}
	return 1
}

// Exec is the record of one execution.
type Exec struct {
	Choices []int
	points  []point
	Events  []string
	Viol    *Violation
	Pruned  bool
	// Diverged: the replayed prefix did not fit this execution's menus.
	Diverged bool
	Obs      string
	steps    int
	newStep  int
}

type abortExec struct{}

// IsControl reports whether a recovered panic value is one of the explorer's
// own control-flow panics (end of execution, replay divergence). A harness
// that recovers panics of the code under test must re-raise these.
func IsControl(r any) bool {
	switch r.(type) {
	case abortExec, divergedExec:
		return true
	}
	return false
}

type divergedExec struct{}

// Chooser is handed to the harness body for one execution.
type Chooser struct {
	prefix []int
	x      *Exec
	ex     *Explorer
	cost   int
	audit  bool
}

// Replaying reports whether the execution is still inside the replayed prefix.
func (c *Chooser) Replaying() bool { return len(c.x.Choices) < len(c.prefix) }

func (c *Chooser) choose(p point) int {
	if p.n <= 0 {
		panic(InfraError{fmt.Sprintf("Choose(%d) at %q", p.n, p.label)})
	}
	if p.n == 1 {
		return 0
	}
	pos := len(c.x.Choices)
	ch := 0
	if pos < len(c.prefix) {
		ch = c.prefix[pos]
		if ch >= p.n && c.ex.Lenient {
			ch = p.n - 1
		}
		if ch >= p.n && !c.ex.Strict {
			panic(divergedExec{})
		}
		if ch >= p.n {
			panic(InfraError{fmt.Sprintf("replay divergence at point %d (%s): "+
				"choice %d but menu has %d entries; prefix=%v; the execution that generated this prefix saw: %s; events so far: %v", pos,
				p.label, ch, p.n, c.prefix, c.ex.expectLast, c.x.Events)})
		}
	}
	c.cost += p.cost(ch)
	c.x.Choices = append(c.x.Choices, ch)
	c.x.points = append(c.x.points, p)
	return ch
}

// Choose returns a value in [0,n). Alternative 0 is the default (cost 0);
// every other alternative costs one deviation.
func (c *Chooser) Choose(n int, label string) int {
	return c.choose(point{n: n, label: label})
}

// ChooseLate is a choice point whose menu size is only known later in the
// execution (FixLate): alternative 0 is the default, every other costs one
// deviation. It returns the choice and the handle to pass to FixLate. Until
// FixLate is called the point has no alternatives.
func (c *Chooser) ChooseLate(label string) (choice, handle int) {
	pos := len(c.x.Choices)
	ch := 0
	if pos < len(c.prefix) {
		ch = c.prefix[pos]
	}
	if ch != 0 {
		c.cost++
	}
	c.x.Choices = append(c.x.Choices, ch)
	c.x.points = append(c.x.points, point{n: ch + 1, label: label})
	return ch, pos
}

// FixLate sets the menu size of a ChooseLate point.
func (c *Chooser) FixLate(handle, n int) {
	ch := c.x.Choices[handle]
	if ch >= n {
		if c.ex.Strict {
			panic(InfraError{fmt.Sprintf("replay divergence at late point %d (%s): choice %d but menu has %d entries",
				handle, c.x.points[handle].label, ch, n)})
		}
		panic(divergedExec{})
	}
	c.x.points[handle].n = n
}

// ChooseFree is Choose with all alternatives free of deviation cost.
func (c *Chooser) ChooseFree(n int, label string) int {
	return c.choose(point{n: n, costs: make([]int, n), label: label})
}

// ChooseCosts chooses among len(costs) alternatives with explicit costs.
func (c *Chooser) ChooseCosts(costs []int, label string) int {
	cp := append([]int(nil), costs...)
	return c.choose(point{n: len(cp), costs: cp, label: label})
}

// Step logs one executed event (a transition).
func (c *Chooser) Step(format string, a ...any) {
	ev := format
	if len(a) > 0 {
		ev = fmt.Sprintf(format, a...)
	}
	c.x.Events = append(c.x.Events, ev)
	if c.ex.Trace {
		fmt.Println("   step:", ev)
	}
	c.x.steps++
	if !c.Replaying() {
		c.x.newStep++
	}
}

// Note appends to the event log without counting a transition.
func (c *Chooser) Note(format string, a ...any) {
	c.x.Events = append(c.x.Events, "  # "+fmt.Sprintf(format, a...))
}

// Visit reports the canonical key of the current state together with the
// remaining depth. It returns true when the state was already explored with at
// least that much remaining depth and deviation budget: the harness must then
// end the execution.
func (c *Chooser) Visit(key string, remaining int) bool {
	e := c.ex
	if !e.Dedupe || c.audit {
		return false
	}
	if c.Replaying() {
		return false
	}
	budget := 1 << 30
	if e.curBound >= 0 {
		budget = e.curBound - c.cost
	}
	h := hashKey(key)
	ents := e.seen[h]
	for _, s := range ents {
		if int(s.rem) >= remaining && int(s.budget) >= budget {
			c.x.Pruned = true
			e.pruned++
			return true
		}
	}
	keep := ents[:0]
	for _, s := range ents {
		if !(int(s.rem) <= remaining && int(s.budget) <= budget) {
			keep = append(keep, s)
		}
	}
	if len(ents) == 0 {
		e.states++
	}
	keep = append(keep, seenEnt{int32(remaining), int32(budget)})
	e.seen[h] = keep
	return false
}

// Fail records a violation for this execution (first one wins) and returns
// true so that the harness can `return` immediately.
func (c *Chooser) Fail(clause, sig, format string, a ...any) bool {
	if c.x.Viol == nil {
		c.x.Viol = &Violation{Clause: clause, Sig: sig,
			Detail: fmt.Sprintf(format, a...)}
	}
	return true
}

// Failed reports whether a violation was recorded.
func (c *Chooser) Failed() bool { return c.x.Viol != nil }

// Obs sets the observation (outcome) string of the execution.
func (c *Chooser) Obs(s string) { c.x.Obs = s }

// Abort ends the execution immediately (used by nested helpers).
func (c *Chooser) Abort() { panic(abortExec{}) }

type seenEnt struct{ rem, budget int32 }

func hashKey(s string) [16]byte {
	h := sha256.Sum256([]byte(s))
	var k [16]byte
	copy(k[:], h[:16])
	return k
}

// Explorer holds configuration and counters.
type Explorer struct {
	Harness string
	Config  string

	MaxDev       int  // -1: unbounded
	IterateBound bool // run bounds 0..MaxDev in turn
	Dedupe       bool
	Shard        int
	NShards      int
	ShardDepth   int
	TimeCap      time.Duration
	Until        time.Time // absolute deadline (zero: none)
	ExecCap      int64
	MaxViol      int
	AuditEvery   int64
	// Reset is called before every execution (e.g. to reset the
	// determinised runtime's counters).
	Reset func()
	// Trace prints every step as it happens (replays).
	Trace bool
	// Lenient is for free-running passes (race detector builds without
	// the determinised runtime): a replayed prefix that no longer fits
	// the menus is clamped instead of being an error, nothing is audited
	// or confirmed, and violations of the harness oracles are only
	// counted, not reported (the schedules are not reproducible).
	Lenient bool
	// Strict turns every sign of nondeterminism (a replayed prefix that no
	// longer fits, a failed determinism audit, a violation that does not
	// reproduce) into an infrastructure error. The default is to record
	// it, give up exhaustiveness and go on: such a run can still report
	// reproducible violations but never an unreproducible one.
	Strict bool

	body func(c *Chooser)

	curBound   int
	poisoned   bool
	expectLast string
	seen       map[[16]byte][]seenEnt
	states     int
	pruned     int64

	Res Result
	out map[string]int64
	obs map[[16]byte]struct{}
	sig map[string]bool
	t0  time.Time
}

// Result is written as JSON for the runner.
type Result struct {
	Harness        string           `json:"harness"`
	Config         string           `json:"config"`
	Shard          int              `json:"shard"`
	NShards        int              `json:"nshards"`
	Executions     int64            `json:"executions"`
	Owned          int64            `json:"owned"`
	Transitions    int64            `json:"transitions"`
	NewTransitions int64            `json:"new_transitions"`
	ChoicePoints   int64            `json:"choice_points"`
	States         int64            `json:"states"`
	Pruned         int64            `json:"pruned"`
	Outcomes       map[string]int64 `json:"outcomes"`
	DistinctObs    int64            `json:"distinct_obs"`
	MaxDepth       int              `json:"max_depth"`
	BoundCompleted int              `json:"bound_completed"`
	MaxDev         int              `json:"max_dev"`
	Exhaustive     bool             `json:"exhaustive"`
	Caps           []string         `json:"caps"`
	Audits         int64            `json:"audits"`
	Samples        []Sample         `json:"samples"`
	Violations     []*Violation     `json:"violations"`
	Infra          string           `json:"infra,omitempty"`
	WallS          float64          `json:"wall_s"`
	Extra          map[string]int64 `json:"extra,omitempty"`
}

// Sample is one execution written out in full.
type Sample struct {
	Index   int64    `json:"index"`
	Choices []int    `json:"choices"`
	Events  []string `json:"events"`
	Obs     string   `json:"obs"`
}

// FromEnv builds an explorer configured from the VFX_* environment.
func FromEnv(harness, config string) *Explorer {
	e := &Explorer{Harness: harness, Config: config, MaxDev: -1,
		NShards: 1, ShardDepth: 2, MaxViol: 8, AuditEvery: 64}
	e.Shard = envInt("VFX_SHARD", 0)
	e.NShards = envInt("VFX_NSHARDS", 1)
	e.ShardDepth = envInt("VFX_SHARD_DEPTH", 2)
	if s := os.Getenv("VFX_TIMECAP_S"); s != "" {
		f, _ := strconv.ParseFloat(s, 64)
		e.TimeCap = time.Duration(f * float64(time.Second))
	}
	e.ExecCap = int64(envInt("VFX_EXECCAP", 0))
	e.Lenient = os.Getenv("VFX_LENIENT") != ""
	e.Strict = os.Getenv("VFX_STRICT") != ""
	e.Until = Deadline()
	return e
}

func envInt(k string, d int) int {
	if s := os.Getenv(k); s != "" {
		if v, err := strconv.Atoi(s); err == nil {
			return v
		}
	}
	return d
}

// Tier returns "quick" or "thorough".
func Tier() string {
	if os.Getenv("VFX_TIER") == "thorough" {
		return "thorough"
	}
	return "quick"
}

func (e *Explorer) owner(ch []int) int {
	if e.NShards <= 1 {
		return 0
	}
	n := len(ch)
	if n > e.ShardDepth {
		n = e.ShardDepth
	}
	h := fnv.New32a()
	for _, c := range ch[:n] {
		h.Write([]byte{byte(c), byte(c >> 8)})
	}
	return int(h.Sum32() % uint32(e.NShards))
}

// RunOne executes body once with the given choice list as prefix.
func (e *Explorer) RunOne(prefix []int, audit bool) (x *Exec) {
	x = &Exec{}
	c := &Chooser{prefix: prefix, x: x, ex: e, audit: audit}
	if e.Reset != nil {
		e.Reset()
	}
	func() {
		defer func() {
			if r := recover(); r != nil {
				switch v := r.(type) {
				case abortExec:
				case divergedExec:
					x.Diverged = true
				case InfraError:
					panic(v)
				default:
					if x.Viol == nil {
						st := string(debug.Stack())
						x.Viol = &Violation{Clause: "panic",
							Sig:    "panic:" + firstLine(fmt.Sprint(r)),
							Detail: fmt.Sprintf("%v\n%s", r, st)}
					}
				}
			}
		}()
		e.body(c)
	}()
	if len(x.Choices) < len(prefix) && !x.Pruned && x.Viol == nil && !e.Lenient && !e.Strict {
		x.Diverged = true
		return x
	}
	if len(x.Choices) < len(prefix) && !x.Pruned && x.Viol == nil && !e.Lenient {
		panic(InfraError{fmt.Sprintf("replay divergence: execution ended after "+
			"%d choices but prefix has %d: %v", len(x.Choices), len(prefix), prefix)})
	}
	return x
}

func firstLine(s string) string {
	if i := strings.IndexByte(s, '\n'); i >= 0 {
		s = s[:i]
	}
	if len(s) > 160 {
		s = s[:160]
	}
	return s
}

func (x *Exec) hash() string {
	h := sha256.New()
	for _, ev := range x.Events {
		h.Write([]byte(ev))
		h.Write([]byte{0})
	}
	h.Write([]byte(x.Obs))
	if x.Viol != nil {
		h.Write([]byte(x.Viol.Clause + "|" + x.Viol.Sig))
	}
	return hex.EncodeToString(h.Sum(nil)[:8])
}

// Labels exposes the labelled choices.
func (x *Exec) Labels() []string { return x.labels() }

func (x *Exec) labels() []string {
	l := make([]string, len(x.points))
	for i, p := range x.points {
		l[i] = fmt.Sprintf("%s:%d/%d", p.label, x.Choices[i], p.n)
	}
	return l
}

// Run explores all executions of body within the configured bounds.
func (e *Explorer) Run(body func(c *Chooser)) *Result {
	e.body = body
	e.t0 = time.Now()
	e.out = map[string]int64{}
	e.obs = map[[16]byte]struct{}{}
	e.sig = map[string]bool{}
	e.Res = Result{Harness: e.Harness, Config: e.Config, Shard: e.Shard,
		NShards: e.NShards, MaxDev: e.MaxDev, BoundCompleted: -1,
		Exhaustive: true}
	if e.MaxViol == 0 {
		e.MaxViol = 8
	}
	defer func() {
		if r := recover(); r != nil {
			if ie, ok := r.(InfraError); ok {
				e.Res.Infra = ie.Msg
				e.Res.Exhaustive = false
				e.finish()
				return
			}
			panic(r)
		}
	}()
	bounds := []int{e.MaxDev}
	if e.IterateBound && e.MaxDev > 0 {
		bounds = nil
		for b := 0; b <= e.MaxDev; b++ {
			bounds = append(bounds, b)
		}
	}
	for _, b := range bounds {
		e.curBound = b
		e.seen = map[[16]byte][]seenEnt{}
		complete := e.runBound()
		if len(e.Res.Violations) >= e.MaxViol {
			e.Res.Exhaustive = false
			e.Res.Caps = append(e.Res.Caps, "max_violations")
			break
		}
		if !complete {
			e.Res.Exhaustive = false
			break
		}
		e.Res.BoundCompleted = b
		if len(e.Res.Violations) > 0 {
			// Smallest bound with a counterexample: stop here.
			if b != e.MaxDev {
				e.Res.Exhaustive = false
				e.Res.Caps = append(e.Res.Caps, "stopped_at_first_failing_bound")
			}
			break
		}
	}
	e.finish()
	return &e.Res
}

func (e *Explorer) finish() {
	e.Res.States = int64(e.states)
	if !e.Dedupe {
		e.Res.States = int64(len(e.obs))
	}
	e.Res.DistinctObs = int64(len(e.obs))
	e.Res.Pruned = e.pruned
	e.Res.Outcomes = e.out
	if len(e.out) > 64 {
		// keep the 64 most frequent
		type kv struct {
			k string
			v int64
		}
		var l []kv
		for k, v := range e.out {
			l = append(l, kv{k, v})
		}
		sort.Slice(l, func(i, j int) bool {
			if l[i].v != l[j].v {
				return l[i].v > l[j].v
			}
			return l[i].k < l[j].k
		})
		m := map[string]int64{}
		for _, x := range l[:64] {
			m[x.k] = x.v
		}
		m["(other outcomes)"] = int64(len(l) - 64)
		e.Res.Outcomes = m
	}
	e.Res.WallS = time.Since(e.t0).Seconds()
}

func (e *Explorer) runBound() bool {
	stack := [][]int{{}}
	if s := os.Getenv("VFX_ONLY_PREFIX"); s != "" {
		// debugging aid: explore only below one prefix
		var pre []int
		for _, f := range strings.Split(s, ",") {
			if v, err := strconv.Atoi(strings.TrimSpace(f)); err == nil {
				pre = append(pre, v)
			}
		}
		stack = [][]int{pre}
	}
	expect := []string{""}
	for len(stack) > 0 {
		prefix := stack[len(stack)-1]
		stack = stack[:len(stack)-1]
		e.expectLast = expect[len(expect)-1]
		expect = expect[:len(expect)-1]
		if e.NShards > 1 && len(prefix) >= e.ShardDepth &&
			e.owner(prefix) != e.Shard {
			continue
		}
		if e.TimeCap > 0 && time.Since(e.t0) > e.TimeCap {
			e.Res.Caps = append(e.Res.Caps, fmt.Sprintf("time_cap_%s", e.TimeCap))
			return false
		}
		if !e.Until.IsZero() && time.Now().After(e.Until) {
			e.Res.Caps = append(e.Res.Caps, "deadline")
			return false
		}
		if e.ExecCap > 0 && e.Res.Executions >= e.ExecCap {
			e.Res.Caps = append(e.Res.Caps, fmt.Sprintf("exec_cap_%d", e.ExecCap))
			return false
		}
		e.noteCurrent(prefix)
		x := e.RunOne(prefix, false)
		e.Res.Executions++
		if x.Diverged {
			e.noteFlaky("replay_divergences", "a schedule prefix did not replay identically (subtree skipped)")
			continue
		}
		owned := e.owner(x.Choices) == e.Shard
		if owned {
			e.account(x)
			if e.poisoned {
				e.Res.Caps = append(e.Res.Caps, "stopped_after_hang")
				return false
			}
			if len(e.Res.Violations) >= e.MaxViol {
				return false
			}
		} else if x.Viol != nil && x.Viol.Clause == "hang" {
			e.Res.Caps = append(e.Res.Caps, "stopped_after_hang")
			return false
		}
		// Branch over alternatives at every point past the prefix. Push in
		// reverse so that the earliest point / lowest alternative is
		// explored first.
		costBefore := make([]int, len(x.points)+1)
		for i, p := range x.points {
			costBefore[i+1] = costBefore[i] + p.cost(x.Choices[i])
		}
		for i := len(x.points) - 1; i >= len(prefix); i-- {
			p := x.points[i]
			for alt := p.n - 1; alt >= 1; alt-- {
				if e.curBound >= 0 && costBefore[i]+p.cost(alt) > e.curBound {
					continue
				}
				np := make([]int, i+1)
				copy(np, x.Choices[:i])
				np[i] = alt
				stack = append(stack, np)
				expect = append(expect, fmt.Sprintf("%s (menu of %d)", p.label, p.n))
			}
		}
	}
	return true
}

// noteCurrent records the execution about to run, so that the runner can
// turn a crash of the whole process (an unrecovered panic in a goroutine of
// the component under test) into a replayable violation.
func (e *Explorer) noteCurrent(prefix []int) {
	p := os.Getenv("VFX_CRASHFILE")
	if p == "" {
		return
	}
	b, _ := json.Marshal(&Violation{Harness: e.Harness, Config: e.Config,
		Choices: prefix, Clause: "crash"})
	_ = os.WriteFile(p, b, 0o644)
}

// noteFlaky records a sign of nondeterminism: the run stays usable but is no
// longer exhaustive.
func (e *Explorer) noteFlaky(key, what string) {
	r := &e.Res
	if r.Extra == nil {
		r.Extra = map[string]int64{}
	}
	r.Extra[key]++
	r.Exhaustive = false
	for _, c := range r.Caps {
		if c == what {
			return
		}
	}
	if len(r.Caps) < 16 {
		r.Caps = append(r.Caps, what)
	}
}

func (e *Explorer) account(x *Exec) {
	r := &e.Res
	r.Owned++
	r.Transitions += int64(x.steps)
	r.NewTransitions += int64(x.newStep)
	r.ChoicePoints += int64(len(x.points))
	if len(x.Choices) > r.MaxDepth {
		r.MaxDepth = len(x.Choices)
	}
	if len(e.obs) < 2000000 {
		e.obs[hashKey(x.hash())] = struct{}{}
	}
	o := x.Obs
	if x.Viol != nil {
		o = "VIOLATION:" + x.Viol.Clause
	} else if x.Pruned {
		o = "(pruned: state already explored)"
	}
	if len(o) > 120 {
		o = o[:120]
	}
	if len(e.out) < 4096 || e.out[o] > 0 {
		e.out[o]++
	}
	n := r.Owned
	if n <= 2 || isPow10(n) {
		if len(r.Samples) < 12 {
			r.Samples = append(r.Samples, Sample{Index: n,
				Choices: x.Choices, Events: capEvents(x.Events), Obs: x.Obs})
		}
	}
	if e.Lenient {
		if x.Viol != nil {
			if r.Extra == nil {
				r.Extra = map[string]int64{}
			}
			r.Extra["oracle_verdicts_ignored_in_free_running_pass"]++
		}
		return
	}
	if e.AuditEvery > 0 && n%e.AuditEvery == 1 && x.Viol == nil {
		y := e.RunOne(x.Choices, true)
		r.Audits++
		if !auditOK(x, y) && !e.Strict {
			e.noteFlaky("determinism_audit_mismatches", "a determinism audit (same choices run twice) gave different event logs")
		} else if !auditOK(x, y) {
			panic(InfraError{fmt.Sprintf("NONDETERMINISM: replaying %v gave "+
				"different events/observation\nfirst:  %v | %s\nsecond: %v | %s",
				x.Choices, x.Events, x.Obs, y.Events, y.Obs)})
		}
	}
	if x.Viol != nil {
		v := x.Viol
		v.Choices = x.Choices
		v.Labels = x.labels()
		v.Events = x.Events
		v.Config = e.Config
		v.Harness = e.Harness
		if e.sig[v.Clause+"|"+v.Sig] {
			return
		}
		if v.Clause == "hang" {
			// A goroutine of the component spins (or waits on a mutex)
			// for ever: it cannot be stopped, so the process is
			// poisoned. Record the schedule and stop this worker.
			e.sig[v.Clause+"|"+v.Sig] = true
			r.Violations = append(r.Violations, v)
			e.poisoned = true
			return
		}
		// Confirm 5x.
		for i := 0; i < 5; i++ {
			y := e.RunOne(x.Choices, true)
			if y.Viol == nil || y.Viol.Clause != v.Clause || y.Viol.Sig != v.Sig {
				got := "no violation"
				if y.Viol != nil {
					got = y.Viol.Clause + "|" + y.Viol.Sig + "|" + y.Viol.Detail
				}
				if !e.Strict {
					e.noteFlaky("unconfirmed_violations", fmt.Sprintf("a violation (%s|%s) did not reproduce when its schedule was re-run and is not reported", v.Clause, v.Sig))
					e.sig[v.Clause+"|"+v.Sig] = true
					return
				}
				panic(InfraError{fmt.Sprintf("NONDETERMINISM: violation %s|%s "+
					"(%s) at %v did not reproduce on re-run %d: got %s",
					v.Clause, v.Sig, v.Detail, x.Choices, i+1, got)})
			}
		}
		e.sig[v.Clause+"|"+v.Sig] = true
		r.Violations = append(r.Violations, v)
	}
}

func auditOK(x, y *Exec) bool {
	if x.Pruned {
		if len(y.Events) < len(x.Events) {
			return false
		}
		for i := range x.Events {
			if x.Events[i] != y.Events[i] {
				return false
			}
		}
		return true
	}
	if len(x.Events) != len(y.Events) || x.Obs != y.Obs {
		return false
	}
	for i := range x.Events {
		if x.Events[i] != y.Events[i] {
			return false
		}
	}
	return y.Viol == nil
}

func capEvents(ev []string) []string {
	if len(ev) <= 60 {
		return ev
	}
	out := append([]string{}, ev[:40]...)
	out = append(out, fmt.Sprintf("... (%d more)", len(ev)-50))
	return append(out, ev[len(ev)-10:]...)
}

func isPow10(n int64) bool {
	for n >= 10 && n%10 == 0 {
		n /= 10
	}
	return n == 1
}

// WriteResult writes the result where the runner asked for it (VFX_OUT), or
// to stdout.
func (e *Explorer) WriteResult() error {
	b, err := json.MarshalIndent(&e.Res, "", " ")
	if err != nil {
		return err
	}
	if p := os.Getenv("VFX_OUT"); p != "" {
		return os.WriteFile(p, b, 0o644)
	}
	fmt.Println(string(b))
	return nil
}

// ReplayFile re-executes the violation stored in a replay artefact and
// returns the resulting execution.
func (e *Explorer) ReplayFile(path string, body func(c *Chooser)) (*Violation, *Exec, error) {
	b, err := os.ReadFile(path)
	if err != nil {
		return nil, nil, err
	}
	var v Violation
	if err := json.Unmarshal(b, &v); err != nil {
		return nil, nil, err
	}
	e.body = body
	e.curBound = -1
	e.Trace = true
	// a replay that does not fit is an error, never a verdict
	e.Strict = true
	x := e.RunOne(v.Choices, true)
	return &v, x, nil
}

// Merge adds the counters of b into a (used by harnesses that run many small
// scenarios, one explorer each).
func Merge(a, b *Result) {
	a.Executions += b.Executions
	a.Owned += b.Owned
	a.Transitions += b.Transitions
	a.NewTransitions += b.NewTransitions
	a.ChoicePoints += b.ChoicePoints
	a.States += b.States
	a.Pruned += b.Pruned
	a.DistinctObs += b.DistinctObs
	a.Audits += b.Audits
	if b.MaxDepth > a.MaxDepth {
		a.MaxDepth = b.MaxDepth
	}
	if a.Outcomes == nil {
		a.Outcomes = map[string]int64{}
	}
	for k, v := range b.Outcomes {
		if len(a.Outcomes) < 256 || a.Outcomes[k] > 0 {
			a.Outcomes[k] += v
		}
	}
	if !b.Exhaustive {
		a.Exhaustive = false
	}
	for _, c := range b.Caps {
		dup := false
		for _, d := range a.Caps {
			dup = dup || c == d
		}
		if !dup {
			a.Caps = append(a.Caps, c)
		}
	}
	if len(a.Samples) < 12 && len(b.Samples) > 0 {
		a.Samples = append(a.Samples, b.Samples[0])
	}
	for _, v := range b.Violations {
		dup := false
		for _, w := range a.Violations {
			dup = dup || (w.Clause == v.Clause && w.Sig == v.Sig)
		}
		if !dup && len(a.Violations) < 32 {
			a.Violations = append(a.Violations, v)
		}
	}
	if b.Infra != "" && a.Infra == "" {
		a.Infra = b.Infra
	}
	if a.Extra == nil {
		a.Extra = map[string]int64{}
	}
	for k, v := range b.Extra {
		a.Extra[k] += v
	}
}

// AppendResult appends r as one JSON line to VFX_OUT (or prints it).
func AppendResult(r *Result) error {
	b, err := json.Marshal(r)
	if err != nil {
		return err
	}
	if p := os.Getenv("VFX_OUT"); p != "" {
		f, err := os.OpenFile(p, os.O_APPEND|os.O_CREATE|os.O_WRONLY, 0o644)
		if err != nil {
			return err
		}
		defer f.Close()
		_, err = f.Write(append(b, '\n'))
		return err
	}
	fmt.Println(string(b))
	return nil
}

// Deadline returns the absolute deadline the runner set (VFX_DEADLINE_UNIX),
// or the zero time.
func Deadline() time.Time {
	if s := os.Getenv("VFX_DEADLINE_UNIX"); s != "" {
		if v, err := strconv.ParseInt(s, 10, 64); err == nil {
			return time.Unix(v, 0)
		}
	}
	return time.Time{}
}

// LoadReplay reads a replay artefact.
func LoadReplay(path string) (*Violation, error) {
	b, err := os.ReadFile(path)
	if err != nil {
		return nil, err
	}
	var v Violation
	if err := json.Unmarshal(b, &v); err != nil {
		return nil, err
	}
	return &v, nil
}

// ReplayChoices executes body once with the given choices (no exploration).
func (e *Explorer) ReplayChoices(ch []int, body func(c *Chooser)) (*Violation, *Exec, error) {
	e.body = body
	e.curBound = -1
	x := e.RunOne(ch, true)
	return x.Viol, x, nil
}

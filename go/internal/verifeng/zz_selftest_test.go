package verifeng

import "testing"

// A body whose menus depend on hidden state that differs from run to run
// (what uncontrolled nondeterminism looks like to the explorer) must not make
// the explorer fail or report anything: it records what it saw and gives up
// exhaustiveness.
func TestVFXEngFlakyBody(t *testing.T) {
	hidden := 0
	e := &Explorer{Harness: "selftest", MaxDev: -1, NShards: 1, ShardDepth: 2, MaxViol: 8, AuditEvery: 2}
	e.Run(func(c *Chooser) {
		hidden++
		n := 2 + hidden%3
		a := c.ChooseFree(n, "a")
		b := c.ChooseFree(2+(hidden/2)%2, "b")
		c.Step("a=%d b=%d", a, b)
		if hidden%7 == 0 {
			c.Fail("flaky", "flaky", "only every seventh run")
		}
		c.Obs("x")
	})
	r := e.Res
	if r.Infra != "" {
		t.Fatalf("infra error: %s", r.Infra)
	}
	if r.Exhaustive {
		t.Fatalf("a flaky body must not be reported as explored exhaustively: %+v", r.Extra)
	}
	for _, v := range r.Violations {
		if v.Clause == "flaky" {
			t.Fatalf("an unreproducible violation was reported")
		}
	}
	if len(r.Extra) == 0 {
		t.Fatalf("nothing recorded about the nondeterminism")
	}
	t.Logf("recorded: %v caps=%v", r.Extra, r.Caps)
}

// A deterministic body with a real violation is still reported.
func TestVFXEngDeterministicViolation(t *testing.T) {
	e := &Explorer{Harness: "selftest", MaxDev: -1, NShards: 1, ShardDepth: 2, MaxViol: 8, AuditEvery: 2}
	e.Run(func(c *Chooser) {
		a := c.ChooseFree(3, "a")
		b := c.ChooseFree(3, "b")
		c.Step("a=%d b=%d", a, b)
		if a == 2 && b == 1 {
			c.Fail("bad", "bad", "a=2 b=1")
		}
	})
	if len(e.Res.Violations) != 1 || !e.Res.Exhaustive || e.Res.Executions != 9 {
		t.Fatalf("got %+v", e.Res)
	}
}

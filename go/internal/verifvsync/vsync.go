// Package verifvsync is a drop-in replacement for the parts of package sync
// used by cache/lru. Every operation is a scheduling point of the cooperative
// scheduler in verifeng; blocking is implemented inside the scheduler, so a
// thread waiting for a held mutex is simply not enabled, and "no enabled
// thread" is a deadlock. Without a scheduler (sequential histories) a Lock on a
// held mutex panics, because it could never be released.
package verifvsync

import (
	"sync"

	"github.com/lightninglabs/neutrino/internal/verifeng"
)

type (
	// WaitGroup, Once, Pool and Cond are passed through unchanged.
	WaitGroup = sync.WaitGroup
	Once      = sync.Once
	Pool      = sync.Pool
	Locker    = sync.Locker
)

// Mutex replaces sync.Mutex.
type Mutex struct{ locked bool }

func (m *Mutex) Lock() {
	s := verifeng.CurSched()
	if s == nil {
		if m.locked {
			panic("deadlock: Lock on a mutex that is held and never released")
		}
		m.locked = true
		return
	}
	s.Point("Mutex.Lock")
	s.Wait("Mutex.Lock", func() bool { return !m.locked })
	m.locked = true
}

func (m *Mutex) TryLock() bool {
	if s := verifeng.CurSched(); s != nil {
		s.Point("Mutex.TryLock")
	}
	if m.locked {
		return false
	}
	m.locked = true
	return true
}

func (m *Mutex) Unlock() {
	if s := verifeng.CurSched(); s != nil {
		s.Point("Mutex.Unlock")
	}
	if !m.locked {
		panic("sync: unlock of unlocked mutex")
	}
	m.locked = false
}

// RWMutex replaces sync.RWMutex.
type RWMutex struct {
	writer  bool
	readers int
	// writers blocked in Lock: as with sync.RWMutex, a pending writer
	// keeps new readers out (which is what makes a recursive RLock a
	// deadlock as soon as a writer arrives in between)
	waitingWriters int
}

func (m *RWMutex) Lock() {
	s := verifeng.CurSched()
	if s == nil {
		if m.writer || m.readers > 0 {
			panic("deadlock: Lock on an RWMutex that is held and never released")
		}
		m.writer = true
		return
	}
	s.Point("RWMutex.Lock")
	m.waitingWriters++
	s.Wait("RWMutex.Lock", func() bool { return !m.writer && m.readers == 0 })
	m.waitingWriters--
	m.writer = true
}

func (m *RWMutex) Unlock() {
	if s := verifeng.CurSched(); s != nil {
		s.Point("RWMutex.Unlock")
	}
	if !m.writer {
		panic("sync: Unlock of unlocked RWMutex")
	}
	m.writer = false
}

func (m *RWMutex) RLock() {
	s := verifeng.CurSched()
	if s == nil {
		if m.writer {
			panic("deadlock: RLock on an RWMutex that is write-held and never released")
		}
		m.readers++
		return
	}
	s.Point("RWMutex.RLock")
	s.Wait("RWMutex.RLock", func() bool { return !m.writer && m.waitingWriters == 0 })
	m.readers++
}

func (m *RWMutex) RUnlock() {
	if s := verifeng.CurSched(); s != nil {
		s.Point("RWMutex.RUnlock")
	}
	if m.readers <= 0 {
		panic("sync: RUnlock of unlocked RWMutex")
	}
	m.readers--
}

// Map replaces sync.Map; entries are kept in insertion order so that Range
// is deterministic.
type Map struct {
	keys []any
	vals []any
}

func (m *Map) point(op string) {
	if s := verifeng.CurSched(); s != nil {
		s.Point("Map." + op)
	}
}

func (m *Map) find(k any) int {
	for i, x := range m.keys {
		if x == k {
			return i
		}
	}
	return -1
}

func (m *Map) Load(k any) (any, bool) {
	m.point("Load")
	if i := m.find(k); i >= 0 {
		return m.vals[i], true
	}
	return nil, false
}

func (m *Map) Store(k, v any) {
	m.point("Store")
	if i := m.find(k); i >= 0 {
		m.vals[i] = v
		return
	}
	m.keys = append(m.keys, k)
	m.vals = append(m.vals, v)
}

func (m *Map) del(i int) {
	m.keys = append(m.keys[:i:i], m.keys[i+1:]...)
	m.vals = append(m.vals[:i:i], m.vals[i+1:]...)
}

func (m *Map) Delete(k any) {
	m.point("Delete")
	if i := m.find(k); i >= 0 {
		m.del(i)
	}
}

func (m *Map) LoadAndDelete(k any) (any, bool) {
	m.point("LoadAndDelete")
	if i := m.find(k); i >= 0 {
		v := m.vals[i]
		m.del(i)
		return v, true
	}
	return nil, false
}

func (m *Map) LoadOrStore(k, v any) (any, bool) {
	m.point("LoadOrStore")
	if i := m.find(k); i >= 0 {
		return m.vals[i], true
	}
	m.keys = append(m.keys, k)
	m.vals = append(m.vals, v)
	return v, false
}

func (m *Map) Swap(k, v any) (any, bool) {
	m.point("Swap")
	if i := m.find(k); i >= 0 {
		old := m.vals[i]
		m.vals[i] = v
		return old, true
	}
	m.keys = append(m.keys, k)
	m.vals = append(m.vals, v)
	return nil, false
}

func (m *Map) CompareAndSwap(k, old, new any) bool {
	m.point("CompareAndSwap")
	if i := m.find(k); i >= 0 && m.vals[i] == old {
		m.vals[i] = new
		return true
	}
	return false
}

func (m *Map) CompareAndDelete(k, old any) bool {
	m.point("CompareAndDelete")
	if i := m.find(k); i >= 0 && m.vals[i] == old {
		m.del(i)
		return true
	}
	return false
}

func (m *Map) Clear() {
	m.point("Clear")
	m.keys, m.vals = nil, nil
}

// Range visits a snapshot of the entries, one scheduling point per entry (as
// sync.Map.Range is not atomic either).
func (m *Map) Range(f func(k, v any) bool) {
	m.point("Range")
	ks := append([]any(nil), m.keys...)
	for _, k := range ks {
		i := m.find(k)
		if i < 0 {
			continue
		}
		if !f(k, m.vals[i]) {
			return
		}
	}
}

package verifmemdb

import (
	"bytes"
	"fmt"
	"os"
	"path/filepath"
	"testing"
	"time"

	"github.com/btcsuite/btcwallet/walletdb"
	_ "github.com/btcsuite/btcwallet/walletdb/bdb"
	"github.com/btcsuite/btcwallet/walletdb/walletdbtest"
)

// TestVFXMemdbInterface runs btcwallet's own driver conformance suite.
func TestVFXMemdbInterface(t *testing.T) {
	walletdbtest.TestInterface(t, driverName)
}

type dop struct {
	kind string
	a, b string
}

func (o dop) String() string { return fmt.Sprintf("%s(%s,%s)", o.kind, o.a, o.b) }

// applyOps runs ops inside one Update on db and returns an observation log.
func applyOps(db walletdb.DB, ops []dop, failAtEnd bool) string {
	var log bytes.Buffer
	err := walletdb.Update(db, func(tx walletdb.ReadWriteTx) error {
		top, err := tx.CreateTopLevelBucket([]byte("top"))
		if err != nil {
			return err
		}
		for _, o := range ops {
			bk := top
			if o.b == "n" {
				nb := top.NestedReadWriteBucket([]byte("n"))
				if nb == nil {
					fmt.Fprintf(&log, "%v:nonested;", o)
					continue
				}
				bk = nb
			}
			switch o.kind {
			case "put":
				fmt.Fprintf(&log, "%v:%v;", o, bk.Put([]byte(o.a), []byte("v"+o.a)))
			case "alias":
				// two puts from one re-used buffer within the transaction
				buf := []byte("first")
				e1 := bk.Put([]byte("a"), buf)
				copy(buf, "SECND")
				e2 := bk.Put([]byte("b"), buf)
				fmt.Fprintf(&log, "%v:%v,%v;", o, e1, e2)
			case "put2":
				fmt.Fprintf(&log, "%v:%v;", o, bk.Put([]byte(o.a), []byte("w")))
			case "del":
				fmt.Fprintf(&log, "%v:%v;", o, bk.Delete([]byte(o.a)))
			case "get":
				fmt.Fprintf(&log, "%v:%q;", o, bk.Get([]byte(o.a)))
			case "mk":
				_, err := bk.CreateBucket([]byte(o.a))
				fmt.Fprintf(&log, "%v:%v;", o, err)
			case "mkif":
				_, err := bk.CreateBucketIfNotExists([]byte(o.a))
				fmt.Fprintf(&log, "%v:%v;", o, err)
			case "rmb":
				fmt.Fprintf(&log, "%v:%v;", o, bk.DeleteNestedBucket([]byte(o.a)))
			case "seq":
				n, err := bk.NextSequence()
				fmt.Fprintf(&log, "%v:%d,%v;", o, n, err)
			case "cur":
				c := bk.ReadWriteCursor()
				k, v := c.Seek([]byte(o.a))
				fmt.Fprintf(&log, "%v:seek=%q,%q", o, k, v)
				// bbolt's behaviour of Next/Prev on an exhausted cursor
				// is an implementation detail nobody relies on (neutrino
				// uses no cursors at all): only move a positioned cursor.
				if k != nil {
					k, v = c.Next()
					fmt.Fprintf(&log, " next=%q,%q", k, v)
					if k != nil {
						k, v = c.Prev()
						fmt.Fprintf(&log, " prev=%q,%q", k, v)
					}
				}
				k, v = c.Last()
				fmt.Fprintf(&log, " last=%q,%q", k, v)
				k, v = c.First()
				fmt.Fprintf(&log, " first=%q,%q del=%v", k, v, c.Delete())
				k, v = c.Next()
				fmt.Fprintf(&log, " next=%q,%q;", k, v)
			}
		}
		if failAtEnd {
			return fmt.Errorf("abort")
		}
		return nil
	})
	fmt.Fprintf(&log, "update=%v;", err)
	// Full dump through the read API.
	_ = walletdb.View(db, func(tx walletdb.ReadTx) error {
		return tx.ForEachBucket(func(name []byte) error {
			fmt.Fprintf(&log, "[%s:", name)
			dumpBucket(&log, tx.ReadBucket(name))
			fmt.Fprintf(&log, "]")
			return nil
		})
	})
	return log.String()
}

func dumpBucket(w *bytes.Buffer, b walletdb.ReadBucket) {
	fmt.Fprintf(w, "seq=%d ", b.Sequence())
	_ = b.ForEach(func(k, v []byte) error {
		if v == nil {
			fmt.Fprintf(w, "%s{", k)
			dumpBucket(w, b.NestedReadBucket(k))
			fmt.Fprintf(w, "}")
		} else {
			fmt.Fprintf(w, "%s=%s,", k, v)
		}
		return nil
	})
}

// TestVFXMemdbDifferential enumerates every sequence of transactions (each of
// 1-2 operations, committed or aborted) up to a depth over a small alphabet
// and compares every observation with real bbolt.
func TestVFXMemdbDifferential(t *testing.T) {
	var alpha []dop
	for _, where := range []string{"", "n"} {
		for _, k := range []string{"a", "b"} {
			alpha = append(alpha, dop{"put", k, where}, dop{"del", k, where}, dop{"get", k, where})
		}
		alpha = append(alpha, dop{"put2", "a", where}, dop{"cur", "a", where}, dop{"cur", "b", where}, dop{"seq", "", where}, dop{"alias", "", where})
	}
	alpha = append(alpha, dop{"mk", "n", ""}, dop{"mkif", "n", ""}, dop{"rmb", "n", ""},
		dop{"mk", "a", ""}, dop{"rmb", "a", ""}, dop{"put", "n", ""}, dop{"del", "n", ""}, dop{"get", "n", ""})
	depth := 3
	if os.Getenv("VFX_TIER") == "thorough" {
		depth = 4
	}
	dir := t.TempDir()
	if d := os.Getenv("VFX_SCRATCH"); d != "" {
		dir = d
	}
	n := 0
	idx := make([]int, depth)
	var total int
	for {
		// run sequence idx on both
		p := filepath.Join(dir, fmt.Sprintf("d%d.db", n))
		real, err := walletdb.Create("bdb", p, true, time.Second, false)
		if err != nil {
			t.Fatal(err)
		}
		mem := New()
		for step, i := range idx {
			ops := []dop{alpha[i]}
			fail := step == 1 && i%2 == 1
			a := applyOps(real, ops, fail)
			b := applyOps(mem, ops, fail)
			if a != b {
				t.Fatalf("memdb differs from bbolt after %v step %d:\n bbolt: %s\n memdb: %s", idx, step, a, b)
			}
		}
		real.Close()
		os.Remove(p)
		total++
		// next
		k := depth - 1
		for k >= 0 {
			idx[k]++
			if idx[k] < len(alpha) {
				break
			}
			idx[k] = 0
			k--
		}
		if k < 0 {
			break
		}
	}
	t.Logf("memdb == bbolt on %d transaction sequences of depth %d over %d operations", total, depth, len(alpha))
}

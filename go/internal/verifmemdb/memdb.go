// Package verifmemdb is an in-memory walletdb.DB for the checks under /verif.
//
// All buckets live in one persistent (path-copying) treap keyed by
// (bucket id, key); a transaction is a root pointer, commit swaps the root.
// Snapshots, clones and restores are therefore O(1), which is what the
// explorers need (one fresh database per execution, one snapshot per durable
// step for crash enumeration). Semantics follow btcwallet's bdb/bbolt driver;
// the package's conformance is checked with walletdbtest.TestInterface and by
// cross-running complete enumerations against real bbolt.
package verifmemdb

import (
	"bytes"
	"crypto/sha256"
	"encoding/binary"
	"errors"
	"fmt"
	"hash/fnv"
	"io"
	"sort"
	"strings"
	"sync"

	"github.com/btcsuite/btcwallet/walletdb"
)

// ---------------------------------------------------------------- treap

type entry struct {
	val   []byte
	child uint64 // != 0: nested bucket with this id
}

type node struct {
	key         []byte
	ent         entry
	pri         uint32
	left, right *node
	hash        *[32]byte
}

func priOf(k []byte) uint32 {
	h := fnv.New32a()
	h.Write(k)
	// scramble
	x := h.Sum32()
	x ^= x >> 16
	x *= 0x7feb352d
	x ^= x >> 15
	x *= 0x846ca68b
	x ^= x >> 16
	return x
}

func get(n *node, k []byte) *node {
	for n != nil {
		c := bytes.Compare(k, n.key)
		if c == 0 {
			return n
		}
		if c < 0 {
			n = n.left
		} else {
			n = n.right
		}
	}
	return nil
}

// split returns trees with keys < k and keys > k (k itself dropped).
func split(n *node, k []byte) (l, r *node) {
	if n == nil {
		return nil, nil
	}
	c := bytes.Compare(k, n.key)
	switch {
	case c == 0:
		return n.left, n.right
	case c < 0:
		ll, lr := split(n.left, k)
		return ll, &node{key: n.key, ent: n.ent, pri: n.pri, left: lr, right: n.right}
	default:
		rl, rr := split(n.right, k)
		return &node{key: n.key, ent: n.ent, pri: n.pri, left: n.left, right: rl}, rr
	}
}

func merge(l, r *node) *node {
	if l == nil {
		return r
	}
	if r == nil {
		return l
	}
	if l.pri > r.pri || (l.pri == r.pri && bytes.Compare(l.key, r.key) < 0) {
		return &node{key: l.key, ent: l.ent, pri: l.pri, left: l.left, right: merge(l.right, r)}
	}
	return &node{key: r.key, ent: r.ent, pri: r.pri, left: merge(l, r.left), right: r.right}
}

func higher(a *node, pri uint32, key []byte) bool {
	return a.pri > pri || (a.pri == pri && bytes.Compare(a.key, key) < 0)
}

func insert(n *node, k []byte, e entry) *node {
	pri := priOf(k)
	return insertP(n, k, e, pri)
}

func insertP(n *node, k []byte, e entry, pri uint32) *node {
	if n == nil {
		return &node{key: k, ent: e, pri: pri}
	}
	c := bytes.Compare(k, n.key)
	if c == 0 {
		return &node{key: n.key, ent: e, pri: n.pri, left: n.left, right: n.right}
	}
	if !higher(n, pri, k) {
		l, r := split(n, k)
		return &node{key: k, ent: e, pri: pri, left: l, right: r}
	}
	if c < 0 {
		return &node{key: n.key, ent: n.ent, pri: n.pri, left: insertP(n.left, k, e, pri), right: n.right}
	}
	return &node{key: n.key, ent: n.ent, pri: n.pri, left: n.left, right: insertP(n.right, k, e, pri)}
}

func remove(n *node, k []byte) *node {
	if n == nil {
		return nil
	}
	c := bytes.Compare(k, n.key)
	if c == 0 {
		return merge(n.left, n.right)
	}
	if c < 0 {
		return &node{key: n.key, ent: n.ent, pri: n.pri, left: remove(n.left, k), right: n.right}
	}
	return &node{key: n.key, ent: n.ent, pri: n.pri, left: n.left, right: remove(n.right, k)}
}

// ceil: smallest node with key >= k.
func ceil(n *node, k []byte) *node {
	var best *node
	for n != nil {
		if bytes.Compare(n.key, k) >= 0 {
			best = n
			n = n.left
		} else {
			n = n.right
		}
	}
	return best
}

// above: smallest node with key > k.
func above(n *node, k []byte) *node {
	var best *node
	for n != nil {
		if bytes.Compare(n.key, k) > 0 {
			best = n
			n = n.left
		} else {
			n = n.right
		}
	}
	return best
}

// below: largest node with key < k.
func below(n *node, k []byte) *node {
	var best *node
	for n != nil {
		if bytes.Compare(n.key, k) < 0 {
			best = n
			n = n.right
		} else {
			n = n.left
		}
	}
	return best
}

func (n *node) merkle() [32]byte {
	if n == nil {
		return [32]byte{}
	}
	if n.hash != nil {
		return *n.hash
	}
	h := sha256.New()
	l, r := n.left.merkle(), n.right.merkle()
	h.Write(l[:])
	var b [8]byte
	binary.BigEndian.PutUint64(b[:], uint64(len(n.key)))
	h.Write(b[:])
	h.Write(n.key)
	binary.BigEndian.PutUint64(b[:], n.ent.child)
	h.Write(b[:])
	h.Write(n.ent.val)
	h.Write(r[:])
	var out [32]byte
	copy(out[:], h.Sum(nil))
	n.hash = &out
	return out
}

func walk(n *node, f func(n *node)) {
	if n == nil {
		return
	}
	walk(n.left, f)
	f(n)
	walk(n.right, f)
}

// ---------------------------------------------------------------- DB

// Snapshot is an immutable database state.
type Snapshot struct {
	root   *node
	nextID uint64
}

// Hash is a Merkle hash of the full contents (O(changed nodes)).
func (s Snapshot) Hash() string {
	h := s.root.merkle()
	return fmt.Sprintf("%x", h[:12])
}

// DB implements walletdb.DB.
type DB struct {
	mu     sync.Mutex // serialises write transactions
	state  sync.Mutex
	cur    Snapshot
	closed bool

	// FailCommit, when set, is consulted by every read-write Commit; a
	// non-nil result aborts the commit (changes rolled back) and is
	// returned. It receives the number of commits attempted so far.
	FailCommit func(n int) error
	// OnCommitted is called after every successful commit with the new
	// state.
	OnCommitted func(s Snapshot)
	// OnBegin, when set, is called at the start of every transaction
	// (a scheduling point for the cooperative scheduler).
	OnBegin func(write bool)
	commits int
}

const rootID = 1

// New returns an empty database.
func New() *DB { return &DB{cur: Snapshot{nextID: rootID + 1}} }

// FromSnapshot returns a database starting at s.
func FromSnapshot(s Snapshot) *DB { return &DB{cur: s} }

// Snapshot returns the current committed state.
func (d *DB) Snapshot() Snapshot {
	d.state.Lock()
	defer d.state.Unlock()
	return d.cur
}

// Restore replaces the committed state.
func (d *DB) Restore(s Snapshot) {
	d.state.Lock()
	d.cur = s
	d.state.Unlock()
}

// Commits returns the number of read-write commits attempted.
func (d *DB) Commits() int { return d.commits }

func bkey(id uint64, k []byte) []byte {
	b := make([]byte, 8+len(k))
	binary.BigEndian.PutUint64(b, id)
	copy(b[8:], k)
	return b
}

type tx struct {
	db       *DB
	writable bool
	closed   bool
	s        Snapshot
	onCommit []func()
	dirty    [][]byte // keys put in this transaction (values copied at commit)
}

func (d *DB) begin(w bool) (*tx, error) {
	if d.closed {
		return nil, walletdb.ErrDbNotOpen
	}
	if d.OnBegin != nil {
		d.OnBegin(w)
	}
	if w {
		d.mu.Lock()
	}
	return &tx{db: d, writable: w, s: d.Snapshot()}, nil
}

func (d *DB) BeginReadTx() (walletdb.ReadTx, error)           { return d.begin(false) }
func (d *DB) BeginReadWriteTx() (walletdb.ReadWriteTx, error) { return d.begin(true) }
func (d *DB) Copy(w io.Writer) error                          { return errors.New("verifmemdb: Copy not supported") }
func (d *DB) Close() error                                    { d.closed = true; return nil }
func (d *DB) PrintStats() string                              { return "verifmemdb" }

func (d *DB) View(f func(tx walletdb.ReadTx) error, reset func()) error {
	reset()
	t, err := d.BeginReadTx()
	if err != nil {
		return err
	}
	defer t.Rollback()
	return f(t)
}

func (d *DB) Update(f func(tx walletdb.ReadWriteTx) error, reset func()) error {
	reset()
	t, err := d.BeginReadWriteTx()
	if err != nil {
		return err
	}
	done := false
	defer func() {
		if !done {
			t.Rollback()
		}
	}()
	if err := f(t); err != nil {
		done = true
		t.Rollback()
		return err
	}
	done = true
	return t.Commit()
}

func (t *tx) bucket(id uint64) *bucket { return &bucket{t: t, id: id} }

func (t *tx) ReadBucket(key []byte) walletdb.ReadBucket {
	b := t.ReadWriteBucket(key)
	if b == nil {
		return nil
	}
	return b
}

func (t *tx) ReadWriteBucket(key []byte) walletdb.ReadWriteBucket {
	b := t.bucket(rootID).nested(key)
	if b == nil {
		return nil
	}
	return b
}

func (t *tx) ForEachBucket(fn func(key []byte) error) error {
	return t.bucket(rootID).ForEach(func(k, v []byte) error {
		if v == nil {
			return fn(k)
		}
		return nil
	})
}

func (t *tx) CreateTopLevelBucket(key []byte) (walletdb.ReadWriteBucket, error) {
	return t.bucket(rootID).CreateBucketIfNotExists(key)
}

func (t *tx) DeleteTopLevelBucket(key []byte) error {
	return t.bucket(rootID).DeleteNestedBucket(key)
}

func (t *tx) Commit() error {
	if t.closed {
		return walletdb.ErrTxClosed
	}
	if !t.writable {
		return walletdb.ErrTxNotWritable
	}
	t.closed = true
	defer t.db.mu.Unlock()
	t.db.commits++
	if t.db.FailCommit != nil {
		if err := t.db.FailCommit(t.db.commits); err != nil {
			return err
		}
	}
	for _, k := range t.dirty {
		if n := get(t.s.root, k); n != nil && n.ent.child == 0 {
			t.s.root = insert(t.s.root, k, entry{val: append([]byte{}, n.ent.val...)})
		}
	}
	t.db.Restore(t.s)
	if t.db.OnCommitted != nil {
		t.db.OnCommitted(t.s)
	}
	for _, f := range t.onCommit {
		f()
	}
	return nil
}

func (t *tx) Rollback() error {
	if t.closed {
		return walletdb.ErrTxClosed
	}
	t.closed = true
	if t.writable {
		t.db.mu.Unlock()
	}
	return nil
}

func (t *tx) OnCommit(f func()) { t.onCommit = append(t.onCommit, f) }

type bucket struct {
	t  *tx
	id uint64
}

func (b *bucket) nested(key []byte) *bucket {
	n := get(b.t.s.root, bkey(b.id, key))
	if n == nil || n.ent.child == 0 || len(key) == 0 {
		return nil
	}
	return b.t.bucket(n.ent.child)
}

func (b *bucket) NestedReadWriteBucket(key []byte) walletdb.ReadWriteBucket {
	nb := b.nested(key)
	if nb == nil {
		return nil
	}
	return nb
}

func (b *bucket) NestedReadBucket(key []byte) walletdb.ReadBucket {
	nb := b.nested(key)
	if nb == nil {
		return nil
	}
	return nb
}

func (b *bucket) writable() error {
	if b.t.closed {
		return walletdb.ErrTxClosed
	}
	if !b.t.writable {
		return walletdb.ErrTxNotWritable
	}
	return nil
}

func (b *bucket) CreateBucket(key []byte) (walletdb.ReadWriteBucket, error) {
	if err := b.writable(); err != nil {
		return nil, err
	}
	if len(key) == 0 {
		return nil, walletdb.ErrBucketNameRequired
	}
	k := bkey(b.id, key)
	if n := get(b.t.s.root, k); n != nil {
		if n.ent.child != 0 {
			return nil, walletdb.ErrBucketExists
		}
		return nil, walletdb.ErrIncompatibleValue
	}
	id := b.t.s.nextID
	b.t.s.nextID++
	b.t.s.root = insert(b.t.s.root, k, entry{child: id})
	return b.t.bucket(id), nil
}

func (b *bucket) CreateBucketIfNotExists(key []byte) (walletdb.ReadWriteBucket, error) {
	nb, err := b.CreateBucket(key)
	if err == walletdb.ErrBucketExists {
		return b.nested(key), nil
	}
	if err != nil {
		return nil, err
	}
	return nb, nil
}

func (b *bucket) DeleteNestedBucket(key []byte) error {
	if err := b.writable(); err != nil {
		return err
	}
	if len(key) == 0 {
		return walletdb.ErrIncompatibleValue
	}
	k := bkey(b.id, key)
	n := get(b.t.s.root, k)
	if n == nil {
		return walletdb.ErrBucketNotFound
	}
	if n.ent.child == 0 {
		return walletdb.ErrIncompatibleValue
	}
	b.t.purge(n.ent.child)
	b.t.s.root = remove(b.t.s.root, k)
	return nil
}

// purge removes every entry of bucket id, recursively.
func (t *tx) purge(id uint64) {
	lo := bkey(id, nil)
	for {
		n := ceil(t.s.root, lo)
		if n == nil || binary.BigEndian.Uint64(n.key) != id {
			return
		}
		if n.ent.child != 0 {
			t.purge(n.ent.child)
		}
		t.s.root = remove(t.s.root, n.key)
	}
}

func (b *bucket) ForEach(fn func(k, v []byte) error) error {
	if b.t.closed {
		return walletdb.ErrTxClosed
	}
	root := b.t.s.root // iteration over the state at call time
	k := bkey(b.id, []byte{})
	n := above(root, k) // skips the zero-length-key sequence entry
	for n != nil && binary.BigEndian.Uint64(n.key) == b.id {
		var v []byte
		if n.ent.child == 0 {
			v = n.ent.val
			if v == nil {
				v = []byte{}
			}
		}
		if err := fn(n.key[8:], v); err != nil {
			return err
		}
		n = above(root, n.key)
	}
	return nil
}

func (b *bucket) Put(key, value []byte) error {
	if err := b.writable(); err != nil {
		return err
	}
	if len(key) == 0 {
		return walletdb.ErrKeyRequired
	}
	k := bkey(b.id, key)
	if n := get(b.t.s.root, k); n != nil && n.ent.child != 0 {
		return walletdb.ErrIncompatibleValue
	}
	// Like bbolt, the value slice is kept by reference until the
	// transaction commits ("the supplied value must remain valid for the
	// life of the transaction"): a caller that re-uses its buffer within
	// one transaction corrupts its own earlier writes, here as there.
	b.t.s.root = insert(b.t.s.root, k, entry{val: value})
	b.t.dirty = append(b.t.dirty, k)
	return nil
}

func (b *bucket) Get(key []byte) []byte {
	if len(key) == 0 {
		return nil
	}
	n := get(b.t.s.root, bkey(b.id, key))
	if n == nil || n.ent.child != 0 {
		return nil
	}
	if n.ent.val == nil {
		return []byte{}
	}
	return n.ent.val
}

func (b *bucket) Delete(key []byte) error {
	if err := b.writable(); err != nil {
		return err
	}
	k := bkey(b.id, key)
	n := get(b.t.s.root, k)
	if n == nil || len(key) == 0 {
		return nil
	}
	if n.ent.child != 0 {
		return walletdb.ErrIncompatibleValue
	}
	b.t.s.root = remove(b.t.s.root, k)
	return nil
}

func (b *bucket) ReadCursor() walletdb.ReadCursor           { return &cursor{b: b} }
func (b *bucket) ReadWriteCursor() walletdb.ReadWriteCursor { return &cursor{b: b} }
func (b *bucket) Tx() walletdb.ReadWriteTx                  { return b.t }

func (b *bucket) Sequence() uint64 {
	n := get(b.t.s.root, bkey(b.id, nil))
	if n == nil {
		return 0
	}
	return binary.BigEndian.Uint64(n.ent.val)
}

func (b *bucket) SetSequence(v uint64) error {
	if err := b.writable(); err != nil {
		return err
	}
	var buf [8]byte
	binary.BigEndian.PutUint64(buf[:], v)
	b.t.s.root = insert(b.t.s.root, bkey(b.id, nil), entry{val: buf[:]})
	return nil
}

func (b *bucket) NextSequence() (uint64, error) {
	if err := b.writable(); err != nil {
		return 0, err
	}
	v := b.Sequence() + 1
	return v, b.SetSequence(v)
}

type cursor struct {
	b   *bucket
	cur []byte // full key of the current position, nil: unpositioned
}

func (c *cursor) ret(n *node) (k, v []byte) {
	if n == nil || binary.BigEndian.Uint64(n.key) != c.b.id || len(n.key) == 8 {
		c.cur = nil
		return nil, nil
	}
	c.cur = n.key
	if n.ent.child != 0 {
		return n.key[8:], nil
	}
	v = n.ent.val
	if v == nil {
		v = []byte{}
	}
	return n.key[8:], v
}

func (c *cursor) First() (k, v []byte) {
	return c.ret(above(c.b.t.s.root, bkey(c.b.id, nil)))
}

func (c *cursor) Last() (k, v []byte) {
	return c.ret(below(c.b.t.s.root, bkey(c.b.id+1, nil)))
}

func (c *cursor) Next() (k, v []byte) {
	if c.cur == nil {
		return nil, nil
	}
	return c.ret(above(c.b.t.s.root, c.cur))
}

func (c *cursor) Prev() (k, v []byte) {
	if c.cur == nil {
		return nil, nil
	}
	return c.ret(below(c.b.t.s.root, c.cur))
}

func (c *cursor) Seek(seek []byte) (k, v []byte) {
	if len(seek) == 0 {
		return c.First()
	}
	return c.ret(ceil(c.b.t.s.root, bkey(c.b.id, seek)))
}

func (c *cursor) Delete() error {
	if err := c.b.writable(); err != nil {
		return err
	}
	if c.cur == nil {
		return nil
	}
	n := get(c.b.t.s.root, c.cur)
	if n == nil {
		return nil
	}
	if n.ent.child != 0 {
		return walletdb.ErrIncompatibleValue
	}
	c.b.t.s.root = remove(c.b.t.s.root, c.cur)
	return nil
}

// Dump renders every plain key/value pair with its bucket path (slow; used
// only for violation reports).
func (s Snapshot) Dump() string {
	paths := map[uint64]string{rootID: ""}
	var lines []string
	walk(s.root, func(n *node) {
		id := binary.BigEndian.Uint64(n.key)
		p := paths[id]
		if n.ent.child != 0 {
			paths[n.ent.child] = p + "/" + fmt.Sprintf("%x", n.key[8:])
			return
		}
		lines = append(lines, fmt.Sprintf("%s/%x=%x", p, n.key[8:], n.ent.val))
	})
	sort.Strings(lines)
	return strings.Join(lines, "\n")
}

const driverName = "vfxmem"

func init() {
	_ = walletdb.RegisterDriver(walletdb.Driver{
		DbType: driverName,
		Create: func(args ...interface{}) (walletdb.DB, error) { return New(), nil },
		Open:   func(args ...interface{}) (walletdb.DB, error) { return New(), nil },
	})
}

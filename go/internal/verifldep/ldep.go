// Package verifldep stands in for package sync in the harness builds of the
// client's packages (import rewrite by build overlay, like verifvsync for the
// cooperative scheduler): Mutex and RWMutex behave exactly like the real ones
// but record, per execution, in which order every goroutine acquires them - a
// lock-order graph as in the Linux kernel's lockdep. Two goroutines that take
// the same two locks in opposite orders can deadlock under a preemption that
// the quiescence-level exploration never produces (both sit between two Lock
// calls with no blocking operation in between); the graph shows the inversion
// in every execution in which both orders merely *occur*, whatever the
// interleaving was. Everything else of package sync is passed through.
package verifldep

import (
	"fmt"
	"runtime"
	"sort"
	"strings"
	"sync"
	"unsafe"

	"github.com/lightninglabs/neutrino/internal/verifdetrt"
)

type (
	WaitGroup = sync.WaitGroup
	Once      = sync.Once
	Cond      = sync.Cond
	Map       = sync.Map
	Pool      = sync.Pool
	Locker    = sync.Locker
)

func NewCond(l Locker) *Cond { return sync.NewCond(l) }

func OnceFunc(f func()) func() { return sync.OnceFunc(f) }

// Mutex and RWMutex are implemented on channels rather than on the runtime's
// semaphores: a goroutine waiting for one is then *durably blocked* in the
// sense of testing/synctest (it waits on a channel made inside the bubble),
// so a bubble in which goroutines wait for each other's mutexes becomes
// quiescent like any other and the consequence (no convergence, Stop does not
// return) is judged in virtual time - instead of the bubble never becoming
// quiescent and a wall-clock watchdog having to call it a hang. It also means
// that a parking point may hold a mutex. Hand-over is first come, first
// served; a waiting writer keeps later readers out, as in package sync.
type Mutex struct {
	mu      sync.Mutex
	locked  bool
	waiters []chan struct{}
}

func (m *Mutex) Lock() {
	verifdetrt.SyncPoint()
	acquire(uintptr(unsafe.Pointer(m)), true)
	m.mu.Lock()
	if !m.locked {
		m.locked = true
		m.mu.Unlock()
		return
	}
	w := make(chan struct{})
	m.waiters = append(m.waiters, w)
	m.mu.Unlock()
	<-w // ownership is handed over by Unlock
}

func (m *Mutex) Unlock() {
	release(uintptr(unsafe.Pointer(m)))
	m.mu.Lock()
	if !m.locked {
		m.mu.Unlock()
		panic("sync: unlock of unlocked mutex")
	}
	if len(m.waiters) > 0 {
		w := m.waiters[0]
		m.waiters = m.waiters[1:]
		m.mu.Unlock()
		close(w)
		verifdetrt.SyncPoint()
		return
	}
	m.locked = false
	m.mu.Unlock()
	verifdetrt.SyncPoint()
}

func (m *Mutex) TryLock() bool {
	m.mu.Lock()
	defer m.mu.Unlock()
	if m.locked {
		return false
	}
	m.locked = true
	hold(uintptr(unsafe.Pointer(m)), true)
	return true
}

type rwWaiter struct {
	ch    chan struct{}
	write bool
}

type RWMutex struct {
	mu      sync.Mutex
	writer  bool
	readers int
	queue   []rwWaiter
}

// grant hands the lock to the head of the queue (and to the readers right
// behind a reader). Called with m.mu held.
func (m *RWMutex) grant() {
	for len(m.queue) > 0 {
		h := m.queue[0]
		if h.write {
			if m.readers == 0 && !m.writer {
				m.writer = true
				m.queue = m.queue[1:]
				close(h.ch)
			}
			return
		}
		if m.writer {
			return
		}
		m.readers++
		m.queue = m.queue[1:]
		close(h.ch)
	}
}

func (m *RWMutex) Lock() {
	verifdetrt.SyncPoint()
	acquire(uintptr(unsafe.Pointer(m)), true)
	m.mu.Lock()
	if !m.writer && m.readers == 0 && len(m.queue) == 0 {
		m.writer = true
		m.mu.Unlock()
		return
	}
	w := rwWaiter{make(chan struct{}), true}
	m.queue = append(m.queue, w)
	m.mu.Unlock()
	<-w.ch
}

func (m *RWMutex) Unlock() {
	release(uintptr(unsafe.Pointer(m)))
	m.mu.Lock()
	if !m.writer {
		m.mu.Unlock()
		panic("sync: Unlock of unlocked RWMutex")
	}
	m.writer = false
	m.grant()
	m.mu.Unlock()
	verifdetrt.SyncPoint()
}

func (m *RWMutex) RLock() {
	verifdetrt.SyncPoint()
	acquire(uintptr(unsafe.Pointer(m)), false)
	m.mu.Lock()
	if !m.writer && len(m.queue) == 0 {
		m.readers++
		m.mu.Unlock()
		return
	}
	w := rwWaiter{make(chan struct{}), false}
	m.queue = append(m.queue, w)
	m.mu.Unlock()
	<-w.ch
}

func (m *RWMutex) RUnlock() {
	release(uintptr(unsafe.Pointer(m)))
	m.mu.Lock()
	if m.readers <= 0 {
		m.mu.Unlock()
		panic("sync: RUnlock of unlocked RWMutex")
	}
	m.readers--
	if m.readers == 0 {
		m.grant()
	}
	m.mu.Unlock()
	verifdetrt.SyncPoint()
}

func (m *RWMutex) TryLock() bool {
	m.mu.Lock()
	defer m.mu.Unlock()
	if m.writer || m.readers > 0 || len(m.queue) > 0 {
		return false
	}
	m.writer = true
	hold(uintptr(unsafe.Pointer(m)), true)
	return true
}

func (m *RWMutex) TryRLock() bool {
	m.mu.Lock()
	defer m.mu.Unlock()
	if m.writer || len(m.queue) > 0 {
		return false
	}
	m.readers++
	hold(uintptr(unsafe.Pointer(m)), false)
	return true
}

func (m *RWMutex) RLocker() Locker { return (*rlocker)(m) }

type rlocker RWMutex

func (r *rlocker) Lock()   { (*RWMutex)(r).RLock() }
func (r *rlocker) Unlock() { (*RWMutex)(r).RUnlock() }

// ---------------------------------------------------------------- the graph

type heldLock struct {
	id    uintptr
	write bool
	pcs   [6]uintptr // where it was taken; resolved only for a report
	npc   int
}

func (h heldLock) site() string { return resolve(h.pcs[:h.npc]) }

type edge struct {
	goid       uint64
	held, want heldLock
	gates      []uintptr // the other locks held at that moment
}

var (
	mu        sync.Mutex
	enabled   bool
	held      = map[uint64][]heldLock{}
	edges     = map[[2]uintptr][]edge{}
	violation *Inversion
)

// Inversion is one pair of opposite acquisition orders.
type Inversion struct {
	Sig, Detail string
}

// Reset clears the graph and switches recording on (start of an execution).
func Reset() {
	mu.Lock()
	enabled = verifdetrt.On
	held = map[uint64][]heldLock{}
	edges = map[[2]uintptr][]edge{}
	violation = nil
	mu.Unlock()
}

// Off stops recording (end of an execution).
func Off() {
	mu.Lock()
	enabled = false
	mu.Unlock()
}

// Violation returns the first inversion seen since Reset, if any.
func Violation() *Inversion {
	mu.Lock()
	defer mu.Unlock()
	return violation
}

func callers() (pcs [6]uintptr, n int) {
	n = runtime.Callers(4, pcs[:])
	return
}

func resolve(pcs []uintptr) string {
	fr := runtime.CallersFrames(pcs)
	var out []string
	for {
		f, more := fr.Next()
		if !strings.Contains(f.File, "verifldep") && !strings.HasPrefix(f.Function, "sync.") {
			fn := f.Function
			if i := strings.LastIndex(fn, "/"); i >= 0 {
				fn = fn[i+1:]
			}
			file := f.File
			if i := strings.LastIndex(file, "/"); i >= 0 {
				file = file[i+1:]
			}
			out = append(out, fmt.Sprintf("%s (%s:%d)", fn, file, f.Line))
			if len(out) == 2 {
				break
			}
		}
		if !more {
			break
		}
	}
	return strings.Join(out, " <- ")
}

// shortSite is the innermost frame without the line number: signatures must
// survive unrelated edits.
func shortSite(s string) string {
	s = strings.SplitN(s, " <- ", 2)[0]
	if i := strings.Index(s, " ("); i >= 0 {
		s = s[:i]
	}
	return s
}

func acquire(id uintptr, write bool) {
	mu.Lock()
	defer mu.Unlock()
	if !enabled {
		return
	}
	g := verifdetrt.Goid()
	hs := held[g]
	me := heldLock{id: id, write: write}
	for i, h := range hs {
		if h.id == id {
			continue // recursive read lock etc.: not an order between two locks
		}
		key := [2]uintptr{h.id, id}
		known := false
		for _, e := range edges[key] {
			if e.goid == g && e.held.write == h.write && e.want.write == write {
				known = true
				break
			}
		}
		if known {
			continue
		}
		var gates []uintptr
		for j, o := range hs {
			if j != i && o.id != id {
				gates = append(gates, o.id)
			}
		}
		// where the second lock is taken is recorded once per new edge
		// (where the first was taken is not: that would cost a stack walk
		// on every acquisition)
		if me.npc == 0 {
			me.pcs, me.npc = callers()
		}
		e := edge{goid: g, held: h, want: me, gates: gates}
		edges[key] = append(edges[key], e)
		// the opposite order, by another goroutine, not under a common lock,
		// and such that each of the two waits can really block (a read lock
		// does not wait for a read lock)
		for _, r := range edges[[2]uintptr{id, h.id}] {
			if r.goid == g || violation != nil {
				continue
			}
			if !(r.held.write || write) || !(h.write || r.want.write) {
				continue
			}
			common := false
			for _, a := range gates {
				for _, b := range r.gates {
					common = common || a == b
				}
			}
			if common {
				continue
			}
			st := me.site()
			sites := []string{shortSite(st), shortSite(r.want.site())}
			sort.Strings(sites)
			violation = &Inversion{
				Sig: strings.Join(sites, "|"),
				Detail: fmt.Sprintf("two goroutines take the same two locks in opposite orders (neither order under a common third lock), so a preemption between the two acquisitions of either deadlocks both:\n"+
					"  goroutine %d holds lock A and takes lock B at %s\n"+
					"  goroutine %d holds lock B and takes lock A at %s",
					g, st, r.goid, r.want.site()),
			}
		}
	}
	held[g] = append(hs, me)
}

func hold(id uintptr, write bool) {
	mu.Lock()
	defer mu.Unlock()
	if !enabled {
		return
	}
	g := verifdetrt.Goid()
	held[g] = append(held[g], heldLock{id: id, write: write})
}

func release(id uintptr) {
	mu.Lock()
	defer mu.Unlock()
	if !enabled {
		return
	}
	g := verifdetrt.Goid()
	hs := held[g]
	for i := len(hs) - 1; i >= 0; i-- {
		if hs[i].id == id {
			held[g] = append(hs[:i:i], hs[i+1:]...)
			return
		}
	}
	// unlocked by another goroutine than the one that locked (legal for
	// sync.Mutex): forget it wherever it is
	for og, l := range held {
		for i := len(l) - 1; i >= 0; i-- {
			if l[i].id == id {
				held[og] = append(l[:i:i], l[i+1:]...)
				return
			}
		}
	}
}

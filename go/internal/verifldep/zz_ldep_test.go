package verifldep

import (
	"sync"
	"testing"
)

// TestVFXLdep: the channel-based mutexes exclude and hand over like the real
// ones (free-running goroutines, race detector friendly).
func TestVFXLdep(t *testing.T) {
	var m Mutex
	var rw RWMutex
	n, r := 0, 0
	var wg sync.WaitGroup
	for g := 0; g < 8; g++ {
		wg.Add(1)
		go func() {
			defer wg.Done()
			for i := 0; i < 2000; i++ {
				m.Lock()
				n++
				m.Unlock()
				if i%4 == 0 {
					rw.Lock()
					r++
					rw.Unlock()
				} else {
					rw.RLock()
					_ = r
					rw.RUnlock()
				}
			}
		}()
	}
	wg.Wait()
	if n != 16000 || r != 4000 {
		t.Fatalf("lost updates: %d %d", n, r)
	}
	if !m.TryLock() || m.TryLock() {
		t.Fatal("TryLock")
	}
	m.Unlock()
	c := NewCond(&m)
	done := make(chan bool)
	go func() { m.Lock(); c.Wait(); m.Unlock(); done <- true }()
	for {
		m.Lock()
		c.Broadcast()
		m.Unlock()
		select {
		case <-done:
			return
		default:
		}
	}
}

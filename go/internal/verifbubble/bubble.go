// Package verifbubble runs one execution of a style-Q harness inside a
// testing/synctest bubble: the bubble is the quiescence detector (Wait returns
// when every goroutine of the component is durably blocked) and the virtual
// clock. The harness delivers exactly one stimulus between two quiescent
// points; which one is the explorer's choice.
package verifbubble

import (
	"fmt"
	"os"
	"runtime"
	"runtime/debug"
	"runtime/metrics"
	"strconv"
	"strings"
	"sync"
	"testing"
	"testing/synctest"
	"time"

	"github.com/lightninglabs/neutrino/internal/verifdetrt"
	"github.com/lightninglabs/neutrino/internal/verifeng"
	"github.com/lightninglabs/neutrino/internal/verifldep"
)

// Outcome describes how the bubble ended.
type Outcome struct {
	// Leak is set when the body returned while goroutines of the bubble
	// were still blocked (they can never run again).
	Leak string
	// Hang is set when the bubble did not reach quiescence within the
	// real-time watchdog (a goroutine is stuck on a mutex, or spins).
	Hang bool
	// Deadlock is set when the controller itself blocked with every other
	// goroutine of the bubble blocked too and no timer pending.
	Deadlock string
	// Panic is a panic raised by the body or a bubble goroutine.
	Panic any
}

var (
	gcOnce  sync.Once
	runs    int
	gcEvery = 200
)

// heapLimit triggers a collection between two executions regardless of the
// run count (executions over long chains allocate tens of megabytes each).
const heapLimit = 768 << 20

var heapSample = []metrics.Sample{{Name: "/memory/classes/heap/objects:bytes"}}

func heapBytes() uint64 {
	metrics.Read(heapSample)
	if heapSample[0].Value.Kind() != metrics.KindUint64 {
		return 0
	}
	return heapSample[0].Value.Uint64()
}

// MaybeGC may be called by a harness at a quiescent point (every goroutine of
// the bubble but the caller durably blocked, so a collection cannot reorder
// runnable goroutines of the component): it collects when the garbage of the
// current execution alone has grown large. Executions over long chains that
// run for hundreds of virtual seconds otherwise reach several gigabytes.
func MaybeGC() {
	if heapBytes() > 2*heapLimit {
		runtime.GC()
	}
}

// Watchdog is the real-time limit for one bubble.
var Watchdog = 10 * time.Second

// Run executes body in a fresh bubble. The determinised runtime's random
// stream is reset first, so the execution is a pure function of the choices
// body makes.
func Run(t *testing.T, body func()) (out Outcome) {
	// The garbage collector is kept out of executions: a stop-the-world
	// phase re-queues the running goroutine and thereby changes the order
	// in which runnable goroutines of the component get the processor,
	// which is exactly the kind of run-to-run variation an execution must
	// not have. Collection happens between executions instead.
	gcOnce.Do(func() { debug.SetGCPercent(-1) })
	runs++
	if runs%gcEvery == 0 || heapBytes() > heapLimit {
		runtime.GC()
	}
	verifdetrt.Reset()
	verifldep.Reset()
	defer verifldep.Off()
	done := make(chan Outcome, 1)
	go func() {
		var o Outcome
		defer func() { done <- o }()
		defer func() {
			if os.Getenv("VFX_NORECOVER") != "" {
				return
			}
			if r := recover(); r != nil {
				msg := fmt.Sprint(r)
				if strings.Contains(msg, "blocked goroutines remain") {
					if o.Panic == nil {
						o.Leak = msg
					}
					return
				}
				if strings.Contains(msg, "all goroutines in bubble are blocked") {
					o.Deadlock = msg
					return
				}
				o.Panic = r
			}
		}()
		synctest.Test(t, func(t *testing.T) {
			// A panic that leaves the body would be re-raised fatally by
			// the testing package's runner, so it is caught here.
			defer func() {
				if r := recover(); r != nil {
					o.Panic = r
				}
			}()
			body()
		})
	}()
	// exactly one real timer exists while the bubble runs, and none is left
	// behind: stale real timers in the processor's timer heap would change
	// its layout from run to run and with it the firing order of bubble
	// timers that expire at the same virtual instant.
	limit := Watchdog
	if v := os.Getenv("VFX_WATCHDOG_S"); v != "" {
		if n, err := strconv.Atoi(v); err == nil && n > 0 {
			limit = time.Duration(n) * time.Second
		}
	}
	wd := time.NewTimer(limit)
	defer wd.Stop()
	select {
	case o := <-done:
		if verifeng.IsControl(o.Panic) {
			// the explorer's own control flow (a replayed prefix that no
			// longer fits, the end of an execution), raised inside the
			// bubble: pass it on, it is not a panic of the code under test
			wd.Stop()
			panic(o.Panic)
		}
		return o
	case <-wd.C:
		if os.Getenv("VFX_HANGDUMP") != "" {
			buf := make([]byte, 1<<22)
			n := runtime.Stack(buf, true)
			os.Stderr.Write(buf[:n])
		}
		return Outcome{Hang: true}
	}
}

// Wait blocks until every goroutine in the bubble is durably blocked.
func Wait() { synctest.Wait() }

// Task is an actor goroutine started by the harness inside the bubble.
type Task struct {
	Name string
	done bool
	Err  error
	Val  any
}

// Go starts f as an actor; after the next Wait, Done tells whether it
// returned.
func Go(name string, f func() (any, error)) *Task {
	t := &Task{Name: name}
	go func() {
		v, err := f()
		t.Val, t.Err = v, err
		t.done = true
	}()
	return t
}

// Done reports whether the actor has returned (call after Wait).
func (t *Task) Done() bool { return t.done }

// LateChooser is the part of the explorer's Chooser that Burst needs.
type LateChooser interface {
	ChooseLate(label string) (choice, handle int)
	FixLate(handle, n int)
}

// Burst makes the order of goroutines *inside* one burst of activity (between
// two quiescent points) a dimension of the exploration, by delay-bounded
// scheduling in the determinised runtime: every time the scheduler picks a
// goroutine of the bubble while another one is runnable too is a numbered
// decision of the step. A step may carry one deviation: the goroutine due at
// decision k goes to the back of the run queue once ("delay"), or every time
// its turn comes while anything else can run ("slow"). The menu of a step
// (2 x decisions + 1) is only known when the step is over, hence the late
// choice. A nil *Burst does nothing.
type Burst struct {
	c         LateChooser
	handle    int
	selHandle int
	Decisions int // decisions seen so far, over all steps
	Selects   int // selects with more than one ready case seen so far
	Deviated  int // deviations taken so far
	// NoSelect / NoSched switch one of the two dimensions off.
	NoSelect, NoSched bool
	// Sync, when non-zero, adds a third dimension: one preemption at a
	// synchronisation point of the step (classes verifdetrt.SyncMutex /
	// SyncSpawn / SyncChan) - the window between two statements that do
	// not block, which no order of stimuli and no delay produces.
	Sync       uint32
	syncHandle int
	SyncPoints int // points seen so far
}

// NewBurst returns nil unless the determinised runtime is linked in.
func NewBurst(c LateChooser) *Burst {
	if !verifdetrt.On {
		return nil
	}
	return &Burst{c: c, handle: -1, selHandle: -1, syncHandle: -1}
}

// Begin is called right before the stimulus of a step is applied. It returns
// a description of the deviation chosen for this step ("" for none).
func (b *Burst) Begin() string {
	if b == nil {
		return ""
	}
	if b.handle >= 0 || b.selHandle >= 0 || b.syncHandle >= 0 {
		b.End()
	}
	desc := ""
	verifdetrt.SetDelay(0, false)
	verifdetrt.SetSelect(0)
	verifdetrt.SetSync(0, 0)
	if b.Sync != 0 {
		d, hd := b.c.ChooseLate("preemption at a synchronisation point in this step")
		b.syncHandle = hd
		if d > 0 {
			b.Deviated++
			desc += fmt.Sprintf(" [the goroutine running at synchronisation point %d of this step (go statement, mutex or channel operation with another goroutine runnable) is preempted there]", d)
		}
		verifdetrt.SetSync(d, b.Sync)
	}
	if !b.NoSched {
		d, hd := b.c.ChooseLate("scheduler deviation in this step")
		b.handle = hd
		switch {
		case d == 0:
		case d%2 == 1:
			b.Deviated++
			verifdetrt.SetDelay((d+1)/2, false)
			desc += fmt.Sprintf(" [the goroutine due at scheduling decision %d of this step goes to the back of the run queue]", (d+1)/2)
		default:
			b.Deviated++
			verifdetrt.SetDelay(d/2, true)
			desc += fmt.Sprintf(" [the goroutine due at scheduling decision %d of this step only runs when nothing else can, until the step ends]", d/2)
		}
	}
	if !b.NoSelect {
		d, hd := b.c.ChooseLate("select deviation in this step")
		b.selHandle = hd
		if d > 0 {
			b.Deviated++
			verifdetrt.SetSelect(d)
			desc += fmt.Sprintf(" [select number %d of this step with several ready cases does not take the ready case the fixed poll order would take, but the next ready one]", d)
		}
	}
	return desc
}

// End is called at the quiescent point that ends the step (after Wait).
func (b *Burst) End() {
	if b == nil {
		return
	}
	n, m, k := verifdetrt.DelayCount(), verifdetrt.SelectCount(), verifdetrt.SyncCount()
	verifdetrt.SetDelay(0, false)
	verifdetrt.SetSelect(0)
	verifdetrt.SetSync(0, 0)
	if h := b.syncHandle; h >= 0 {
		b.syncHandle = -1
		b.SyncPoints += k
		b.c.FixLate(h, k+1)
	}
	if h := b.handle; h >= 0 {
		b.handle = -1
		b.Decisions += n
		b.c.FixLate(h, 2*n+1)
	}
	if h := b.selHandle; h >= 0 {
		b.selHandle = -1
		b.Selects += m
		b.c.FixLate(h, m+1)
	}
}

// Off disarms without fixing a menu (end of an execution).
func (b *Burst) Off() {
	if b != nil {
		verifdetrt.SetDelay(0, false)
		verifdetrt.SetSelect(0)
		verifdetrt.SetSync(0, 0)
		b.handle, b.selHandle, b.syncHandle = -1, -1, -1
	}
}

// LockOrder returns the first lock-order inversion recorded in this execution
// (packages built with the verifldep rewrite only), as a signature and a
// description, or "", "".
func LockOrder() (sig, detail string) {
	if v := verifldep.Violation(); v != nil {
		return v.Sig, v.Detail
	}
	return "", ""
}

package verifbubble

import (
	"fmt"
	"testing"

	"github.com/lightninglabs/neutrino/internal/verifdetrt"
)

// TestVFXBurst checks the scheduler and select deviations of the determinised
// runtime: decisions are counted, an armed deviation changes the order, and
// the same deviation gives the same order twice.
func TestVFXBurst(t *testing.T) {
	if !verifdetrt.On {
		t.Skip("stock runtime")
	}
	run := func(delay int, starve bool, sel int) (order string, nd, ns int) {
		Run(t, func() {
			a, b := make(chan int, 1), make(chan int, 1)
			start := make(chan struct{})
			res := make(chan string, 8)
			for i := 0; i < 3; i++ {
				i := i
				go func() {
					<-start
					res <- fmt.Sprint("g", i)
				}()
			}
			go func() {
				<-start
				select {
				case <-a:
					res <- "selA"
				case <-b:
					res <- "selB"
				}
			}()
			Wait()
			a <- 1
			b <- 1
			verifdetrt.SetDelay(delay, starve)
			verifdetrt.SetSelect(sel)
			close(start)
			Wait()
			nd, ns = verifdetrt.DelayCount(), verifdetrt.SelectCount()
			verifdetrt.SetDelay(0, false)
			verifdetrt.SetSelect(0)
			for len(res) > 0 {
				order += <-res + " "
			}
		})
		return
	}
	base, nd, ns := run(0, false, 0)
	t.Logf("default: %s (%d scheduling decisions, %d select decisions)", base, nd, ns)
	if nd < 2 || ns != 1 {
		t.Fatalf("decisions not counted: %d %d", nd, ns)
	}
	seen := map[string]bool{base: true}
	for d := 1; d <= nd; d++ {
		for _, st := range []bool{false, true} {
			o1, _, _ := run(d, st, 0)
			o2, _, _ := run(d, st, 0)
			if o1 != o2 {
				t.Fatalf("delay %d/%v not deterministic: %q vs %q", d, st, o1, o2)
			}
			seen[o1] = true
			t.Logf("delay %d starve=%v: %s", d, st, o1)
		}
	}
	if len(seen) < 2 {
		t.Fatalf("no delay changed the order")
	}
	o, _, _ := run(0, false, 1)
	t.Logf("select deviation: %s", o)
	if o == base {
		t.Fatalf("the select deviation changed nothing")
	}
}

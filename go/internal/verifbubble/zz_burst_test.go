package verifbubble

import (
	"fmt"
	"testing"

	"github.com/lightninglabs/neutrino/internal/verifdetrt"
	"github.com/lightninglabs/neutrino/internal/verifldep"
)

// TestVFXBurst checks the scheduler and select deviations of the determinised
// runtime: decisions are counted, an armed deviation changes the order, and
// the same deviation gives the same order twice.
func TestVFXBurst(t *testing.T) {
	if !verifdetrt.On {
		t.Skip("stock runtime")
	}
	run := func(delay int, starve bool, sel int) (order string, nd, ns int) {
		Run(t, func() {
			a, b := make(chan int, 1), make(chan int, 1)
			start := make(chan struct{})
			res := make(chan string, 8)
			for i := 0; i < 3; i++ {
				i := i
				go func() {
					<-start
					res <- fmt.Sprint("g", i)
				}()
			}
			go func() {
				<-start
				select {
				case <-a:
					res <- "selA"
				case <-b:
					res <- "selB"
				}
			}()
			Wait()
			a <- 1
			b <- 1
			verifdetrt.SetDelay(delay, starve)
			verifdetrt.SetSelect(sel)
			close(start)
			Wait()
			nd, ns = verifdetrt.DelayCount(), verifdetrt.SelectCount()
			verifdetrt.SetDelay(0, false)
			verifdetrt.SetSelect(0)
			for len(res) > 0 {
				order += <-res + " "
			}
		})
		return
	}
	base, nd, ns := run(0, false, 0)
	t.Logf("default: %s (%d scheduling decisions, %d select decisions)", base, nd, ns)
	if nd < 2 || ns != 1 {
		t.Fatalf("decisions not counted: %d %d", nd, ns)
	}
	seen := map[string]bool{base: true}
	for d := 1; d <= nd; d++ {
		for _, st := range []bool{false, true} {
			o1, _, _ := run(d, st, 0)
			o2, _, _ := run(d, st, 0)
			if o1 != o2 {
				t.Fatalf("delay %d/%v not deterministic: %q vs %q", d, st, o1, o2)
			}
			seen[o1] = true
			t.Logf("delay %d starve=%v: %s", d, st, o1)
		}
	}
	if len(seen) < 2 {
		t.Fatalf("no delay changed the order")
	}
	o, _, _ := run(0, false, 1)
	t.Logf("select deviation: %s", o)
	if o == base {
		t.Fatalf("the select deviation changed nothing")
	}
}

// TestVFXBurstSync checks the preemption at synchronisation points: a
// check-then-act window after a mutex unlock (two callers both see the other's
// update and both skip their action) and a goroutine that runs before the
// statement after its go statement are only reachable with such a preemption,
// are reached by one, and identically twice.
func TestVFXBurstSync(t *testing.T) {
	if !verifdetrt.On {
		t.Skip("stock runtime")
	}
	run := func(at int, mask uint32) (out string, n int) {
		Run(t, func() {
			var mu verifldep.Mutex
			queue, signals := 0, 0
			enqueue := func() {
				mu.Lock()
				queue++
				mu.Unlock()
				// unlocked check-then-act
				if queue == 1 {
					signals++
				}
			}
			recorded := false
			sweepSaw := false
			start := make(chan struct{})
			for i := 0; i < 2; i++ {
				go func() {
					<-start
					enqueue()
				}()
			}
			go func() {
				<-start
				go func() { sweepSaw = recorded }()
				recorded = true
			}()
			Wait()
			verifdetrt.SetSync(at, mask)
			close(start)
			Wait()
			n = verifdetrt.SyncCount()
			verifdetrt.SetSync(0, 0)
			out = fmt.Sprintf("signals=%d sweepSawRecord=%v", signals, sweepSaw)
		})
		return
	}
	all := uint32(verifdetrt.SyncMutex | verifdetrt.SyncSpawn | verifdetrt.SyncChan)
	base, n := run(0, all)
	t.Logf("default: %s (%d synchronisation points)", base, n)
	if base != "signals=1 sweepSawRecord=true" || n < 3 {
		t.Fatalf("unexpected default outcome %q with %d points", base, n)
	}
	seen := map[string]bool{}
	for d := 1; d <= n; d++ {
		o1, _ := run(d, all)
		o2, _ := run(d, all)
		if o1 != o2 {
			t.Fatalf("preemption at point %d not deterministic: %q vs %q", d, o1, o2)
		}
		seen[o1] = true
		t.Logf("preemption at point %d: %s", d, o1)
	}
	if !seen["signals=0 sweepSawRecord=true"] {
		t.Fatalf("no preemption produced the lost signal")
	}
	if !seen["signals=1 sweepSawRecord=false"] {
		t.Fatalf("no preemption let the new goroutine run before the statement after its go statement")
	}
	if _, k := run(0, 0); k != 0 {
		t.Fatalf("points counted with an empty class mask")
	}
}

// Package verifhfs is the harness-owned environment of the header stores: a
// per-execution data directory on tmpfs, an in-memory walletdb and a wrapper
// around every flat file the stores open (through the `verif` build-tag seam
// headerfs.VerifWrapFile). Every durable step (file write, file truncate,
// file sync, index commit) is a choice point of the explorer: the default
// answer performs the step, the alternatives fail it (error, short write) or
// kill the process there (crash before the step, or part-way through a write
// with every class of torn length).
package verifhfs

import (
	"errors"
	"fmt"
	"io"
	"os"
	"path/filepath"
	"strings"
	"time"

	"github.com/btcsuite/btcd/chaincfg/v2"
	"github.com/lightninglabs/neutrino/headerfs"
	"github.com/lightninglabs/neutrino/internal/verifeng"
	"github.com/lightninglabs/neutrino/internal/verifmemdb"
)

// Crash is panicked by the environment when the explorer chose to kill the
// process at a durable step. The harness recovers it at operation level.
type Crash struct{ Where string }

// ErrInjected is the error returned by failed I/O calls.
var ErrInjected = errors.New("injected I/O error")

// Env is one execution's environment.
type Env struct {
	C   *verifeng.Chooser
	Dir string
	DB  *verifmemdb.DB

	// Faults / Crashes enable the two kinds of deviation.
	Faults  bool
	Crashes bool
	// MaxFaultsPerOp bounds injected faults per harness operation.
	MaxFaultsPerOp int

	faultsThisOp int
	open         []*os.File
	// Quiet suppresses deviations (used while the harness itself drives
	// the stores for oracle purposes).
	Quiet bool

	// MemFiles replaces the flat files by in-memory files.
	MemFiles bool
	mem      map[string]*MemFile

	// OnRead, when set, is called before every read of a flat file (a
	// scheduling point for the cooperative scheduler).
	OnRead func()
	// OnWrite, when set, is called before every write to a flat file with
	// the file's short name ("block" / "filter"): a parking point for
	// harnesses that let a write take its time.
	OnWrite func(file string)

	Steps     int // durable steps performed
	Deviated  []string
	LastCrash string
}

var scratchSeq int

var (
	haveBuckets bool
	bucketsSnap verifmemdb.Snapshot
)

// bucketsSnapshot returns the database state right after the very first
// commit of a first start: the header index's 65 536 pre-created (empty)
// hash-prefix sub-buckets and their marker key. Creating them costs ~100 ms,
// so it is done once per process by running the real constructor on a scratch
// database and capturing the state after its first commit; every execution
// starts from that snapshot. (What is skipped: a crash before that first
// commit, which leaves an empty database and empty files.)
func bucketsSnapshot() verifmemdb.Snapshot {
	if haveBuckets {
		return bucketsSnap
	}
	db := verifmemdb.New()
	db.OnCommitted = func(s verifmemdb.Snapshot) {
		if !haveBuckets {
			haveBuckets = true
			bucketsSnap = s
		}
	}
	dir, err := os.MkdirTemp(os.Getenv("VFX_SCRATCH"), "init")
	if err != nil {
		panic(verifeng.InfraError{Msg: "mkdir scratch: " + err.Error()})
	}
	defer os.RemoveAll(dir)
	saved := headerfs.VerifWrapFile
	headerfs.VerifWrapFile = nil
	_, err = headerfs.NewBlockHeaderStore(dir, db, &chaincfg.RegressionNetParams)
	headerfs.VerifWrapFile = saved
	if err != nil || !haveBuckets {
		panic(verifeng.InfraError{Msg: fmt.Sprintf("cannot build the initial index snapshot: %v", err)})
	}
	return bucketsSnap
}

// NewEnv creates the directory and database.
func NewEnv(c *verifeng.Chooser) *Env {
	base := os.Getenv("VFX_SCRATCH")
	if base == "" {
		base = os.TempDir()
	}
	scratchSeq++
	dir := filepath.Join(base, fmt.Sprintf("x%d", scratchSeq))
	os.RemoveAll(dir)
	if err := os.MkdirAll(dir, 0o755); err != nil {
		panic(verifeng.InfraError{Msg: "mkdir scratch: " + err.Error()})
	}
	e := &Env{C: c, Dir: dir, DB: verifmemdb.FromSnapshot(bucketsSnapshot()), MaxFaultsPerOp: 1}
	e.DB.FailCommit = e.commitHook
	headerfs.VerifWrapFile = e.wrap
	return e
}

// Cleanup closes every file and removes the directory.
func (e *Env) Cleanup() {
	e.CloseFiles()
	headerfs.VerifWrapFile = nil
	os.RemoveAll(e.Dir)
}

// CloseFiles closes the descriptors of discarded store objects.
func (e *Env) CloseFiles() {
	for _, f := range e.open {
		f.Close()
	}
	e.open = nil
}

// BeginOp resets the per-operation fault allowance.
func (e *Env) BeginOp() { e.faultsThisOp = 0 }

func (e *Env) wrap(name string, f headerfs.File) headerfs.File {
	of, ok := f.(*os.File)
	if !ok {
		return f
	}
	short := "block"
	size := 80
	if strings.Contains(filepath.Base(name), "filter") {
		short = "filter"
		size = 32
	}
	if e.MemFiles {
		// In-memory flat files (O_APPEND semantics): no system calls, so
		// a goroutine doing store I/O never hands the processor over,
		// which keeps executions with several runnable goroutines
		// deterministic. The real (empty) file is closed right away.
		of.Close()
		if e.mem == nil {
			e.mem = map[string]*MemFile{}
		}
		mf, ok := e.mem[filepath.Base(name)]
		if !ok {
			mf = &MemFile{name: name}
			e.mem[filepath.Base(name)] = mf
		}
		return &wfile{File: &memHandle{f: mf}, env: e, short: short, entry: size}
	}
	e.open = append(e.open, of)
	return &wfile{File: of, env: e, short: short, entry: size}
}

type wfile struct {
	headerfs.File
	env   *Env
	short string
	entry int
}

type alt struct {
	name  string
	crash bool
	n     int // bytes to write (-1: all)
	fail  bool
}

func (e *Env) choose(label string, alts []alt) alt {
	if e.Quiet || len(alts) == 1 {
		return alts[0]
	}
	i := e.C.Choose(len(alts), label)
	if i > 0 {
		e.Deviated = append(e.Deviated, label+"="+alts[i].name)
		e.C.Note("%s: %s", label, alts[i].name)
	}
	return alts[i]
}

func (w *wfile) ReadAt(p []byte, off int64) (int, error) {
	if w.env.OnRead != nil {
		w.env.OnRead()
	}
	return w.File.ReadAt(p, off)
}

func (w *wfile) Write(p []byte) (int, error) {
	e := w.env
	if len(p) == 0 {
		return w.File.Write(p)
	}
	if e.OnWrite != nil {
		e.OnWrite(w.short)
	}
	alts := []alt{{name: "ok", n: -1}}
	if e.Faults && e.faultsThisOp < e.MaxFaultsPerOp {
		alts = append(alts, alt{name: "error-0-bytes", n: 0, fail: true},
			alt{name: "short-1-byte", n: 1, fail: true})
		if w.entry/2 < len(p) {
			alts = append(alts, alt{name: "short-half-entry", n: w.entry / 2, fail: true})
		}
		if len(p) > w.entry {
			alts = append(alts, alt{name: "short-one-entry", n: w.entry, fail: true})
		}
	}
	if e.Crashes {
		alts = append(alts, alt{name: "crash-before", crash: true, n: 0},
			alt{name: "crash-torn-1-byte", crash: true, n: 1},
			alt{name: "crash-torn-half-entry", crash: true, n: w.entry / 2})
		for k := 1; k*w.entry < len(p); k++ {
			alts = append(alts, alt{name: fmt.Sprintf("crash-torn-%d-entries", k),
				crash: true, n: k * w.entry})
		}
		if len(p) > w.entry+w.entry/2 {
			alts = append(alts, alt{name: "crash-torn-1.5-entries", crash: true,
				n: w.entry + w.entry/2})
		}
	}
	a := e.choose(fmt.Sprintf("%s.write(%dB)", w.short, len(p)), alts)
	e.Steps++
	switch {
	case a.crash:
		if a.n > 0 {
			w.File.Write(p[:a.n])
		}
		e.LastCrash = fmt.Sprintf("%s.write(%dB):%s", w.short, len(p), a.name)
		panic(Crash{e.LastCrash})
	case a.fail:
		e.faultsThisOp++
		n := 0
		if a.n > 0 {
			n, _ = w.File.Write(p[:a.n])
		}
		return n, ErrInjected
	}
	return w.File.Write(p)
}

func (w *wfile) Truncate(size int64) error {
	e := w.env
	alts := []alt{{name: "ok"}}
	if e.Faults && e.faultsThisOp < e.MaxFaultsPerOp {
		alts = append(alts, alt{name: "error", fail: true})
	}
	if e.Crashes {
		alts = append(alts, alt{name: "crash-before", crash: true})
	}
	a := e.choose(fmt.Sprintf("%s.truncate", w.short), alts)
	e.Steps++
	switch {
	case a.crash:
		e.LastCrash = w.short + ".truncate:crash-before"
		panic(Crash{e.LastCrash})
	case a.fail:
		e.faultsThisOp++
		return ErrInjected
	}
	return w.File.Truncate(size)
}

func (w *wfile) Sync() error {
	e := w.env
	alts := []alt{{name: "ok"}}
	if e.Faults && e.faultsThisOp < e.MaxFaultsPerOp {
		alts = append(alts, alt{name: "error", fail: true})
	}
	a := e.choose(fmt.Sprintf("%s.sync", w.short), alts)
	if a.fail {
		e.faultsThisOp++
		return ErrInjected
	}
	return w.File.Sync()
}

func (e *Env) commitHook(n int) error {
	alts := []alt{{name: "ok"}}
	if e.Faults && e.faultsThisOp < e.MaxFaultsPerOp {
		alts = append(alts, alt{name: "error", fail: true})
	}
	if e.Crashes {
		alts = append(alts, alt{name: "crash-before", crash: true})
	}
	a := e.choose("db.commit", alts)
	e.Steps++
	switch {
	case a.crash:
		e.LastCrash = "db.commit:crash-before"
		panic(Crash{e.LastCrash})
	case a.fail:
		e.faultsThisOp++
		return ErrInjected
	}
	return nil
}

// FileInfo returns size and current offset of a flat file, read through a
// fresh descriptor (size) and the store's own descriptor (offset).
func (e *Env) FileSize(name string) int64 {
	if mf, ok := e.mem[name]; ok {
		return int64(len(mf.data))
	}
	st, err := os.Stat(filepath.Join(e.Dir, name))
	if err != nil {
		return -1
	}
	return st.Size()
}

// Offsets returns the current offsets of all open descriptors, newest last
// (the stores base clean-up decisions on them).
func (e *Env) Offsets() string {
	var b strings.Builder
	for _, f := range e.open {
		off, err := f.Seek(0, io.SeekCurrent)
		if err != nil {
			continue
		}
		fmt.Fprintf(&b, "%s@%d ", filepath.Base(f.Name())[:3], off)
	}
	return b.String()
}

// ReadFile returns the raw bytes of a flat file.
func (e *Env) ReadFile(name string) []byte {
	if mf, ok := e.mem[name]; ok {
		return append([]byte(nil), mf.data...)
	}
	b, _ := os.ReadFile(filepath.Join(e.Dir, name))
	return b
}

// CatchCrash runs f and reports whether the environment killed the process
// inside it.
func CatchCrash(f func()) (crashed bool, where string) {
	defer func() {
		if r := recover(); r != nil {
			if c, ok := r.(Crash); ok {
				crashed, where = true, c.Where
				return
			}
			panic(r)
		}
	}()
	f()
	return false, ""
}

// MemFile is the shared content of an in-memory flat file; every open of the
// same name gets its own handle (offset) onto it, like descriptors of a file.
type MemFile struct {
	name string
	data []byte
}

type memHandle struct {
	f   *MemFile
	off int64
}

type memInfo struct {
	name string
	size int64
}

func (i memInfo) Name() string       { return filepath.Base(i.name) }
func (i memInfo) Size() int64        { return i.size }
func (i memInfo) Mode() os.FileMode  { return 0o644 }
func (i memInfo) ModTime() time.Time { return time.Time{} }
func (i memInfo) IsDir() bool        { return false }
func (i memInfo) Sys() any           { return nil }

func (h *memHandle) Read(p []byte) (int, error) {
	if h.off >= int64(len(h.f.data)) {
		return 0, io.EOF
	}
	n := copy(p, h.f.data[h.off:])
	h.off += int64(n)
	return n, nil
}

// Write appends (O_APPEND) and leaves the offset at the new end.
func (h *memHandle) Write(p []byte) (int, error) {
	h.f.data = append(h.f.data, p...)
	h.off = int64(len(h.f.data))
	return len(p), nil
}

func (h *memHandle) Close() error { return nil }

func (h *memHandle) Seek(offset int64, whence int) (int64, error) {
	switch whence {
	case io.SeekStart:
		h.off = offset
	case io.SeekCurrent:
		h.off += offset
	case io.SeekEnd:
		h.off = int64(len(h.f.data)) + offset
	}
	if h.off < 0 {
		h.off = 0
		return 0, errors.New("negative offset")
	}
	return h.off, nil
}

func (h *memHandle) ReadAt(p []byte, off int64) (int, error) {
	if off >= int64(len(h.f.data)) {
		return 0, io.EOF
	}
	n := copy(p, h.f.data[off:])
	if n < len(p) {
		return n, io.EOF
	}
	return n, nil
}

func (h *memHandle) Stat() (os.FileInfo, error) {
	return memInfo{h.f.name, int64(len(h.f.data))}, nil
}

func (h *memHandle) Sync() error { return nil }

func (h *memHandle) Truncate(size int64) error {
	if size < 0 {
		return errors.New("invalid argument")
	}
	for int64(len(h.f.data)) < size {
		h.f.data = append(h.f.data, 0)
	}
	h.f.data = h.f.data[:size]
	return nil
}

func (h *memHandle) Name() string { return h.f.name }

package blockntfns_test

// C11 — every subscriber sees every block event once, in order, from its
// start. Real SubscriptionManager inside a synctest bubble; the harness is
// the notification source and the clients, and delivers one stimulus per
// quiescent point: subscribe, cancel, emit one event, emit a burst of 25,
// read one, drain, stop.

import (
	"fmt"
	"os"
	"strings"
	"testing"

	"github.com/btcsuite/btcd/wire/v2"
	"github.com/lightninglabs/neutrino/blockntfns"
	"github.com/lightninglabs/neutrino/internal/verifbubble"
	"github.com/lightninglabs/neutrino/internal/verifdetrt"
	"github.com/lightninglabs/neutrino/internal/verifeng"
)

type c11src struct {
	ch          chan blockntfns.BlockNtfn
	emitted     []blockntfns.BlockNtfn
	failBacklog bool
	// gateNext makes the next backlog read a parking point: the snapshot is
	// taken, then the call only returns when the explorer says so (a long
	// backlog read from disk), so that events can be emitted in between
	gateNext  bool
	parked    chan struct{}
	onBacklog func(heights []uint32)
}

func (s *c11src) Notifications() <-chan blockntfns.BlockNtfn { return s.ch }

func (s *c11src) NotificationsSinceHeight(h uint32) ([]blockntfns.BlockNtfn, uint32, error) {
	var out []blockntfns.BlockNtfn
	for _, n := range s.emitted {
		if n.Height() > h {
			out = append(out, n)
		}
	}
	best := uint32(len(s.emitted))
	if s.onBacklog != nil {
		var hs []uint32
		for _, n := range out {
			hs = append(hs, n.Height())
		}
		s.onBacklog(hs)
		s.onBacklog = nil
	}
	if s.gateNext {
		s.gateNext = false
		g := make(chan struct{})
		s.parked = g
		<-g
	}
	return out, best, nil
}

func mkNtfn(i int) blockntfns.BlockNtfn {
	return blockntfns.NewBlockConnected(wire.BlockHeader{Nonce: uint32(i)}, uint32(i))
}

type c11client struct {
	sub     *blockntfns.Subscription
	state   string // "", "sub", "cancelled"
	expect  []uint32
	frozen  bool // no further events expected (cancelled / stopped)
	got     []uint32
	closed  bool
	cancels int
	// expecting: the source has handed out this client's backlog snapshot;
	// whatever is emitted from now on is due to it
	expecting bool
	pending   *verifbubble.Task // NewSubscription in flight (backlog read parked)
}

const c11Burst = 25

func c11Body(t *testing.T, depth, nclients int, bursts int) func(c *verifeng.Chooser) {
	return func(c *verifeng.Chooser) {
		out := verifbubble.Run(t, func() { c11Run(c, depth, nclients, bursts) })
		switch {
		case out.Panic != nil:
			if ie, ok := out.Panic.(verifeng.InfraError); ok {
				panic(ie)
			}
			c.Fail("panic", "panic", "%v", out.Panic)
		case out.Deadlock != "":
			c.Fail("stuck", "controller-deadlock", "a call into the subscription manager blocked with every goroutine idle (%s)", out.Deadlock)
		case out.Hang:
			c.Fail("hang", "hang", "the bubble never became quiescent (a goroutine spins or waits on a mutex)")
		case out.Leak != "" && !c.Failed():
			c.Fail("leak", "goroutines-blocked-after-stop", "after Stop returned and every subscription was cancelled: %s", out.Leak)
		}
	}
}

// bursts: 0 none; 1 one scheduler/select deviation per execution; 2 one
// preemption at a synchronisation point per execution, API calls in pairs
func c11Run(c *verifeng.Chooser, depth, nclients int, bursts int) {
	var burst *verifbubble.Burst
	if bursts > 0 {
		burst = verifbubble.NewBurst(c)
	}
	if bursts == 2 && burst != nil {
		burst.NoSched, burst.NoSelect = true, true
		burst.Sync = verifdetrt.SyncMutex | verifdetrt.SyncSpawn | verifdetrt.SyncChan
	}
	src := &c11src{ch: make(chan blockntfns.BlockNtfn)}
	m := blockntfns.NewSubscriptionManager(src)
	m.Start()
	clients := make([]*c11client, nclients)
	for i := range clients {
		clients[i] = &c11client{}
	}
	stopped := false
	secondQueued := false
	var pendingEmits []*verifbubble.Task

	// act runs f as an actor and requires it to return by quiescence.
	act := func(name string, f func() (any, error)) (*verifbubble.Task, bool) {
		tk := verifbubble.Go(name, f)
		verifbubble.Wait()
		if !tk.Done() {
			c.Fail("blocked", name+"-blocks", "%s has not returned although every goroutine is idle: it can never return", name)
			return tk, false
		}
		return tk, true
	}
	emit := func(k int) bool {
		for i := 0; i < k; i++ {
			n := mkNtfn(len(src.emitted) + 1)
			src.emitted = append(src.emitted, n)
			for _, cl := range clients {
				if (cl.state == "sub" || cl.expecting) && !cl.frozen {
					cl.expect = append(cl.expect, n.Height())
				}
			}
			if src.parked != nil {
				// the manager may be busy with the backlog read: the
				// send completes when it gets there
				pendingEmits = append(pendingEmits, verifbubble.Go("emit", func() (any, error) { src.ch <- n; return nil, nil }))
				verifbubble.Wait()
				continue
			}
			if _, ok := act("emit", func() (any, error) { src.ch <- n; return nil, nil }); !ok {
				return false
			}
		}
		return true
	}
	// release lets the parked backlog read return; the subscription call
	// and every emit launched meanwhile must then complete
	release := func() bool {
		close(src.parked)
		src.parked = nil
		verifbubble.Wait()
		for i, cl := range clients {
			if cl.pending == nil {
				continue
			}
			tk := cl.pending
			cl.pending = nil
			if !tk.Done() {
				return !c.Fail("blocked", "NewSubscription-blocks", "NewSubscription(c%d) has not returned although its backlog read has and every goroutine is idle", i)
			}
			if tk.Err != nil {
				return !c.Fail("subscribe", "subscribe-fails", "NewSubscription failed: %v", tk.Err)
			}
			cl.sub = tk.Val.(*blockntfns.Subscription)
			cl.state = "sub"
			cl.expecting = false
		}
		for _, tk := range pendingEmits {
			if !tk.Done() {
				return !c.Fail("blocked", "emit-blocks", "an event sent while a backlog was being read was never taken by the manager")
			}
		}
		pendingEmits = nil
		secondQueued = false
		return true
	}
	readOne := func(i int) (got bool) {
		cl := clients[i]
		select {
		case n, ok := <-cl.sub.Notifications:
			if !ok {
				cl.closed = true
				return false
			}
			cl.got = append(cl.got, n.Height())
			return true
		default:
			return false
		}
	}
	check := func(final bool) bool {
		for i, cl := range clients {
			if cl.state == "" {
				continue
			}
			if len(cl.got) > len(cl.expect) {
				return c.Fail("order", "extra-event", "client %d received %v, expected stream is only %v", i, cl.got, cl.expect)
			}
			for j := range cl.got {
				if cl.got[j] != cl.expect[j] {
					return c.Fail("order", "wrong-event", "client %d received %v, expected a prefix of %v (dropped, duplicated or reordered event)", i, cl.got, cl.expect)
				}
			}
		}
		return false
	}
	drain := func(i int) bool {
		cl := clients[i]
		for {
			verifbubble.Wait()
			if cl.closed || !readOne(i) {
				break
			}
		}
		if check(false) {
			return false
		}
		if cl.state == "sub" && !cl.frozen && len(cl.got) != len(cl.expect) {
			c.Fail("lost", "drained-but-incomplete", "client %d drained its channel at quiescence and holds %v, but %v were due (backlog + everything emitted since registration)", i, cl.got, cl.expect)
			return false
		}
		return true
	}

	for d := 0; d < depth && !c.Failed(); d++ {
		verifbubble.Wait()
		burst.End()
		type ev struct {
			name string
			run  func() bool
		}
		var menu []ev
		if src.parked != nil {
			// a backlog read is in progress: the source goes on emitting,
			// or the read returns
			if len(pendingEmits) < 2 && !secondQueued {
				menu = append(menu, ev{"emit (while a backlog is being read)", func() bool { return emit(1) }})
			}
			// a second caller subscribes while the handler is busy with
			// the first registration: its call waits for the handler
			// (offered while no event is on its way, so that its backlog
			// is simply everything emitted so far)
			if !stopped && !secondQueued && len(pendingEmits) == 0 {
				for i := range clients {
					i := i
					cl := clients[i]
					if cl.state != "" || cl.pending != nil {
						continue
					}
					menu = append(menu, ev{fmt.Sprintf("subscribe(c%d,from=0) while the handler is busy with the other registration", i), func() bool {
						secondQueued = true
						var backlog []uint32
						for _, n := range src.emitted {
							backlog = append(backlog, n.Height())
						}
						cl.expect = backlog
						cl.expecting = true
						cl.pending = verifbubble.Go(fmt.Sprintf("NewSubscription(c%d)", i), func() (any, error) {
							s, err := m.NewSubscription(0)
							return s, err
						})
						return true
					}})
					break
				}
			}
			menu = append(menu, ev{"the backlog read returns", release})
			if !stopped {
				// Stop while a registration is in flight: the caller is
				// released by the shutdown, the handler finishes the
				// registration it is in the middle of afterwards
				menu = append(menu, ev{"stop (while a backlog is being read), then the backlog read returns", func() bool {
					tk := verifbubble.Go("Stop", func() (any, error) { m.Stop(); return nil, nil })
					verifbubble.Wait()
					stopped = true
					for _, cl := range clients {
						cl.frozen = true
					}
					close(src.parked)
					src.parked = nil
					verifbubble.Wait()
					if !tk.Done() {
						c.Fail("blocked", "Stop-blocks", "Stop was called while a subscription's backlog was being read; the read has returned and every goroutine is idle, but Stop has not returned")
						return false
					}
					for i, cl := range clients {
						if cl.pending == nil {
							continue
						}
						tk := cl.pending
						cl.pending = nil
						if !tk.Done() {
							c.Fail("blocked", "NewSubscription-blocks", "NewSubscription(c%d) has not returned after Stop", i)
							return false
						}
						if tk.Err == nil {
							// the registration made it: an ordinary subscriber of a stopped manager
							cl.sub = tk.Val.(*blockntfns.Subscription)
							cl.state = "sub"
						}
						cl.expecting = false
					}
					// events sent meanwhile may or may not have been taken
					// by the manager before it stopped: the source takes
					// back what is still on its way
					for _, tk := range pendingEmits {
						if !tk.Done() {
							select {
							case <-src.ch:
							default:
							}
							verifbubble.Wait()
						}
					}
					pendingEmits = nil
					return true
				}})
			}
			e := menu[c.ChooseFree(len(menu), "event")]
			c.Step("%s%s", e.name, burst.Begin())
			if !e.run() {
				return
			}
			verifbubble.Wait()
			if check(false) {
				return
			}
			continue
		}
		if !stopped {
			menu = append(menu, ev{"emit", func() bool { return emit(1) }})
			menu = append(menu, ev{fmt.Sprintf("burst(%d)", c11Burst), func() bool { return emit(c11Burst) }})
		}
		for i := range clients {
			i := i
			cl := clients[i]
			if cl.state == "" && !stopped && cl.pending == nil {
				menu = append(menu, ev{fmt.Sprintf("subscribe(c%d,from=0) with a slow backlog read", i), func() bool {
					src.gateNext = true
					src.onBacklog = func(hs []uint32) { cl.expect = hs; cl.expecting = true }
					cl.pending = verifbubble.Go(fmt.Sprintf("NewSubscription(c%d)", i), func() (any, error) {
						s, err := m.NewSubscription(0)
						return s, err
					})
					verifbubble.Wait()
					if src.parked == nil {
						c.Fail("blocked", "NewSubscription-blocks", "NewSubscription(c%d) neither returned nor asked the source for the backlog", i)
						return false
					}
					return true
				}})
			}
			if cl.state == "" && cl.pending == nil {
				for _, from := range []string{"0", "tip"} {
					from := from
					menu = append(menu, ev{fmt.Sprintf("subscribe(c%d,from=%s)", i, from), func() bool {
						h := uint32(0)
						if from == "tip" {
							h = uint32(len(src.emitted))
						}
						var backlog []uint32
						for _, n := range src.emitted {
							if n.Height() > h {
								backlog = append(backlog, n.Height())
							}
						}
						tk, ok := act(fmt.Sprintf("NewSubscription(c%d)", i), func() (any, error) {
							s, err := m.NewSubscription(h)
							return s, err
						})
						if !ok {
							return false
						}
						if stopped {
							if tk.Err == nil {
								c.Fail("after-stop", "subscribe-after-stop-succeeds", "NewSubscription succeeded after Stop")
								return false
							}
							return true
						}
						if tk.Err != nil {
							c.Fail("subscribe", "subscribe-fails", "NewSubscription failed: %v", tk.Err)
							return false
						}
						cl.sub = tk.Val.(*blockntfns.Subscription)
						cl.state = "sub"
						cl.expect = backlog
						return true
					}})
				}
			}
			if cl.state != "" && cl.cancels < 2 {
				menu = append(menu, ev{fmt.Sprintf("cancel(c%d)", i), func() bool {
					cl.cancels++
					if _, ok := act(fmt.Sprintf("Cancel(c%d)", i), func() (any, error) { cl.sub.Cancel(); return nil, nil }); !ok {
						return false
					}
					cl.state = "cancelled"
					cl.frozen = true
					return true
				}})
			}
			if cl.state != "" && !cl.closed && len(cl.sub.Notifications) > 0 {
				menu = append(menu, ev{fmt.Sprintf("read(c%d)", i), func() bool { readOne(i); return !check(false) }})
				menu = append(menu, ev{fmt.Sprintf("drain(c%d)", i), func() bool { return drain(i) }})
			}
		}
		if bursts == 2 && !stopped {
			// two API calls by two callers in one step (the goroutine
			// launched last runs first): neither may block for ever
			pair := func(name string, first, second func() (any, error), after func(a, b *verifbubble.Task) bool) {
				menu = append(menu, ev{name, func() bool {
					a := verifbubble.Go(name+"/1", first)
					b := verifbubble.Go(name+"/2", second)
					verifbubble.Wait()
					if !a.Done() || !b.Done() {
						c.Fail("blocked", "concurrent-call-blocks", "%s: a call has not returned although every goroutine is idle (first returned: %v, second returned: %v)", name, a.Done(), b.Done())
						return false
					}
					return after(a, b)
				}})
			}
			stopCall := func() (any, error) { m.Stop(); return nil, nil }
			afterStop := func() {
				stopped = true
				for _, cl := range clients {
					cl.frozen = true
				}
			}
			for i := range clients {
				i := i
				cl := clients[i]
				if cl.state == "" && cl.pending == nil {
					var backlog []uint32
					for _, n := range src.emitted {
						backlog = append(backlog, n.Height())
					}
					subCall := func() (any, error) { return m.NewSubscription(0) }
					done := func(sub *verifbubble.Task) bool {
						afterStop()
						if sub.Err == nil {
							// registered before the manager stopped: it
							// gets (a prefix of) the backlog, then its
							// channel is closed
							cl.sub = sub.Val.(*blockntfns.Subscription)
							cl.state = "sub"
							cl.expect = backlog
							cl.frozen = true
						}
						return true
					}
					pair(fmt.Sprintf("NewSubscription(c%d,from=0) and Stop at once, Stop running first", i), subCall, stopCall,
						func(a, b *verifbubble.Task) bool { return done(a) })
					pair(fmt.Sprintf("NewSubscription(c%d,from=0) and Stop at once, NewSubscription running first", i), stopCall, subCall,
						func(a, b *verifbubble.Task) bool { return done(b) })
					break
				}
			}
			for i := range clients {
				i := i
				cl := clients[i]
				if cl.state == "sub" && cl.cancels == 0 {
					cancelCall := func() (any, error) { cl.sub.Cancel(); return nil, nil }
					canc := func() { cl.cancels++; cl.state = "cancelled"; cl.frozen = true }
					pair(fmt.Sprintf("Cancel(c%d) and Stop at once, Stop running first", i), cancelCall, stopCall,
						func(a, b *verifbubble.Task) bool { canc(); afterStop(); return true })
					pair(fmt.Sprintf("Cancel(c%d) and Stop at once, Cancel running first", i), stopCall, cancelCall,
						func(a, b *verifbubble.Task) bool { canc(); afterStop(); return true })
					pair(fmt.Sprintf("Cancel(c%d) by two callers at once", i), cancelCall, cancelCall,
						func(a, b *verifbubble.Task) bool { canc(); cl.cancels++; return true })
					// a cancellation and the next event at once: whether
					// the cancelled client still gets the event is open
					// (its stream is frozen afterwards), everybody else does
					emitCall := func() (any, error) {
						n := mkNtfn(len(src.emitted) + 1)
						src.emitted = append(src.emitted, n)
						for _, o := range clients {
							if o != cl && (o.state == "sub" || o.expecting) && !o.frozen {
								o.expect = append(o.expect, n.Height())
							}
						}
						src.ch <- n
						return nil, nil
					}
					pair(fmt.Sprintf("Cancel(c%d) and emit at once, emit running first", i), cancelCall, emitCall,
						func(a, b *verifbubble.Task) bool { cl.expect = append(cl.expect, uint32(len(src.emitted))); canc(); return true })
					pair(fmt.Sprintf("Cancel(c%d) and emit at once, Cancel running first", i), emitCall, cancelCall,
						func(a, b *verifbubble.Task) bool { cl.expect = append(cl.expect, uint32(len(src.emitted))); canc(); return true })
					break
				}
			}
		}
		if !stopped {
			menu = append(menu, ev{"stop", func() bool {
				if _, ok := act("Stop", func() (any, error) { m.Stop(); return nil, nil }); !ok {
					return false
				}
				stopped = true
				for _, cl := range clients {
					cl.frozen = true
				}
				return true
			}})
		}
		if len(menu) == 0 {
			break
		}
		e := menu[c.ChooseFree(len(menu), "event")]
		c.Step("%s%s", e.name, burst.Begin())
		if !e.run() {
			return
		}
		verifbubble.Wait()
		if check(false) {
			return
		}
	}
	verifbubble.Wait()
	burst.End()
	burst.Off()
	if c.Failed() {
		return
	}
	if src.parked != nil && !release() {
		return
	}
	verifbubble.Wait()
	if check(false) {
		return
	}
	// Wind down: stop the manager; every channel must then be closed after
	// its buffered events, and nothing else may arrive.
	if !stopped {
		if _, ok := act("Stop", func() (any, error) { m.Stop(); return nil, nil }); !ok {
			return
		}
		for _, cl := range clients {
			cl.frozen = true
		}
	}
	for i, cl := range clients {
		if cl.state == "" {
			continue
		}
		for k := 0; k < 100 && !cl.closed; k++ {
			verifbubble.Wait()
			select {
			case n, ok := <-cl.sub.Notifications:
				if !ok {
					cl.closed = true
				} else {
					cl.got = append(cl.got, n.Height())
				}
			default:
				k = 100
			}
		}
		if check(true) {
			return
		}
		if !cl.closed {
			c.Fail("not-closed", "channel-open-after-stop", "client %d's channel is still open (and empty) after cancellation/Stop and quiescence", i)
			return
		}
	}
	var b strings.Builder
	for _, cl := range clients {
		fmt.Fprintf(&b, "%s:%d/%d ", cl.state, len(cl.got), len(cl.expect))
	}
	c.Obs(b.String())
}

func TestVFXC11(t *testing.T) {
	tier := verifeng.Tier()
	depth, ncl := 6, 2
	if tier == "thorough" {
		depth, ncl = 8, 3
	}
	if rp := os.Getenv("VFX_REPLAY"); rp != "" {
		v, err := verifeng.LoadReplay(rp)
		if err != nil {
			t.Fatal(err)
		}
		fmt.Sscanf(v.Config, "depth=%d clients=%d", &depth, &ncl)
		e := verifeng.FromEnv(v.Harness, v.Config)
		_, x, err := e.ReplayFile(rp, c11Body(t, depth, ncl, map[bool]int{true: 1}[strings.Contains(v.Config, "in-burst")]+map[bool]int{true: 2}[strings.Contains(v.Config, "preemption")]))
		if err != nil {
			t.Fatal(err)
		}
		for _, ev := range x.Events {
			fmt.Println("  ", ev)
		}
		if x.Viol != nil {
			fmt.Printf("REPLAY-VIOLATION clause=%s sig=%s\n%s\n", x.Viol.Clause, x.Viol.Sig, x.Viol.Detail)
		} else {
			fmt.Println("REPLAY-OK no violation")
		}
		return
	}
	e := verifeng.FromEnv("C11-subscriptions", fmt.Sprintf("depth=%d clients=%d burst=%d", depth, ncl, c11Burst))
	e.Run(c11Body(t, depth, ncl, 0))
	if err := verifeng.AppendResult(&e.Res); err != nil {
		t.Fatal(err)
	}
	// the order inside a burst as a further dimension (DESIGN 3.7): every
	// history up to a smaller depth with at most one scheduler or select
	// deviation
	bd := depth - 2
	e = verifeng.FromEnv("C11-subscriptions", fmt.Sprintf("depth=%d clients=%d burst=%d in-burst deviations<=1", bd, ncl, c11Burst))
	e.MaxDev = 1
	e.Run(c11Body(t, bd, ncl, 1))
	if err := verifeng.AppendResult(&e.Res); err != nil {
		t.Fatal(err)
	}
	// API calls in pairs with one preemption at a synchronisation point
	// (DESIGN 3.9)
	e = verifeng.FromEnv("C11-subscriptions", fmt.Sprintf("depth=%d clients=%d burst=%d preemption at a synchronisation point<=1", bd, ncl, c11Burst))
	e.MaxDev = 1
	e.Run(c11Body(t, bd, ncl, 2))
	if err := verifeng.AppendResult(&e.Res); err != nil {
		t.Fatal(err)
	}
}

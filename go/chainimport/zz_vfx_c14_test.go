package chainimport_test

// C14 — header import. Exhaustive product over file start height, length,
// write batch size, target pre-state (block tip, filter lag, agreeing or
// forked chain), corruption kind and position, and one injected store-write
// fault, against the real NewHeadersImport(...).Import on real header stores.

import (
	"context"
	"encoding/binary"
	"fmt"
	"os"
	"path/filepath"
	"strings"
	"testing"
	"time"

	"github.com/btcsuite/btcd/chaincfg/v2"
	"github.com/btcsuite/btcd/chainhash/v2"
	"github.com/btcsuite/btcd/wire/v2"
	"github.com/lightninglabs/neutrino/chainimport"
	"github.com/lightninglabs/neutrino/headerfs"
	"github.com/lightninglabs/neutrino/internal/verifchain"
	"github.com/lightninglabs/neutrino/internal/verifeng"
	"github.com/lightninglabs/neutrino/internal/verifhfs"
)

const c14Len = 7 // heights 0..6

type fixture struct {
	p      *chaincfg.Params
	main   []*verifchain.Node // by height
	fork   []*verifchain.Node // by height; equals main below forkAt
	now    time.Time
	forkAt int
}

var fx *fixture

func getFixture() *fixture {
	if fx != nil {
		return fx
	}
	p := verifchain.Params(verifchain.Opt{})
	g := verifchain.Genesis(p)
	f := &fixture{p: p, forkAt: 3}
	f.main = append([]*verifchain.Node{g}, verifchain.Chain(p, g, c14Len-1, 1, "M")...)
	f.fork = append([]*verifchain.Node{}, f.main[:f.forkAt]...)
	f.fork = append(f.fork, verifchain.Chain(p, f.main[f.forkAt-1], c14Len-f.forkAt, 2, "F")...)
	f.now = f.main[c14Len-1].Hdr.Timestamp.Add(time.Hour)
	fx = f
	return f
}

// fhOf derives a (synthetic) filter header chain for a block chain; entry 0
// is the real genesis filter header.
func fhOf(chain []*verifchain.Node, genesisFH chainhash.Hash) []chainhash.Hash {
	out := []chainhash.Hash{genesisFH}
	for i := 1; i < len(chain); i++ {
		prev := out[i-1]
		out = append(out, chainhash.DoubleHashH(append(chain[i].Hash[:], prev[:]...)))
	}
	return out
}

type c14case struct {
	bt, lag int
	forked  bool
	s, l    int
	batch   int
	// fmis: the filter header the target holds at its filter tip is not
	// the file's (block headers agree): a mismatch with existing data that
	// only a comparison of the filter headers themselves can see
	fmis    bool
	// cancelled: Import is called with a context that is already cancelled
	// (shutdown during start-up); nothing unvalidated may reach the stores
	cancelled bool
	corrupt string // none link pow bits magic truncated count fstart
	pos     int    // index into the file for link/pow/bits
}

func (c c14case) String() string {
	return fmt.Sprintf("target(block tip %d, filter lag %d, forked=%v, filter tip differs=%v) file(start %d, len %d) batch=%d corrupt=%s@%d cancelled=%v",
		c.bt, c.lag, c.forked, c.fmis, c.s, c.l, c.batch, c.corrupt, c.pos, c.cancelled)
}

func writeImportFile(path string, magic wire.BitcoinNet, typ headerfs.HeaderType, start uint32, body []byte) error {
	hdr := make([]byte, 10)
	binary.LittleEndian.PutUint32(hdr[0:], uint32(magic))
	hdr[4] = 0
	hdr[5] = byte(typ)
	binary.LittleEndian.PutUint32(hdr[6:], start)
	return os.WriteFile(path, append(hdr, body...), 0o644)
}

type storeState struct {
	blocks  []wire.BlockHeader
	filters []chainhash.Hash
}

func readState(b headerfs.BlockHeaderStore, f headerfs.FilterHeaderStore) (*storeState, error) {
	st := &storeState{}
	_, bh, err := b.ChainTip()
	if err != nil {
		return nil, fmt.Errorf("block ChainTip: %w", err)
	}
	for i := uint32(0); i <= bh; i++ {
		h, err := b.FetchHeaderByHeight(i)
		if err != nil {
			return nil, fmt.Errorf("block FetchHeaderByHeight(%d): %w", i, err)
		}
		hash := h.BlockHash()
		hh, err := b.HeightFromHash(&hash)
		if err != nil || hh != i {
			return nil, fmt.Errorf("block at height %d: HeightFromHash says %d, err=%v", i, hh, err)
		}
		st.blocks = append(st.blocks, *h)
	}
	if _, err := b.FetchHeaderByHeight(bh + 1); err == nil {
		return nil, fmt.Errorf("block store serves height %d above its tip %d", bh+1, bh)
	}
	_, fh, err := f.ChainTip()
	if err != nil {
		return nil, fmt.Errorf("filter ChainTip: %w", err)
	}
	for i := uint32(0); i <= fh; i++ {
		h, err := f.FetchHeaderByHeight(i)
		if err != nil {
			return nil, fmt.Errorf("filter FetchHeaderByHeight(%d): %w", i, err)
		}
		st.filters = append(st.filters, *h)
	}
	if _, err := f.FetchHeaderByHeight(fh + 1); err == nil {
		return nil, fmt.Errorf("filter store serves height %d above its tip %d", fh+1, fh)
	}
	return st, nil
}

func (s *storeState) String() string {
	return fmt.Sprintf("blocks 0..%d filters 0..%d", len(s.blocks)-1, len(s.filters)-1)
}

func sameState(a, b *storeState) bool {
	if len(a.blocks) != len(b.blocks) || len(a.filters) != len(b.filters) {
		return false
	}
	for i := range a.blocks {
		if a.blocks[i] != b.blocks[i] {
			return false
		}
	}
	for i := range a.filters {
		if a.filters[i] != b.filters[i] {
			return false
		}
	}
	return true
}

// validChain checks st.blocks with the reference validator.
func validChain(f *fixture, st *storeState) string {
	if st.blocks[0] != f.main[0].Hdr {
		return "height 0 is not the genesis header"
	}
	parent := f.main[0]
	for i := 1; i < len(st.blocks); i++ {
		h := st.blocks[i]
		if err := verifchain.Check(f.p, parent, &h, f.now); err != nil {
			return fmt.Sprintf("stored header at height %d is invalid in its context: %v", i, err)
		}
		parent = verifchain.Adopt(parent, h, fmt.Sprintf("S%d", i))
	}
	return ""
}

func enumerateCase(c *verifeng.Chooser, tier string) c14case {
	var cs c14case
	maxBT := 4
	cs.bt = c.ChooseFree(maxBT+1, "block-tip")
	lags := 1
	if cs.bt >= 1 {
		lags = 2
	}
	if cs.bt >= 2 {
		lags = 3
	}
	cs.lag = c.ChooseFree(lags, "filter-lag")
	if cs.bt >= 3 {
		cs.forked = c.ChooseFree(2, "target-forked") == 1
	}
	if !cs.forked && cs.bt-cs.lag >= 1 {
		cs.fmis = c.ChooseFree(2, "target-filter-tip-differs") == 1
	}
	cs.s = c.ChooseFree(5, "file-start")
	maxL := c14Len - cs.s
	if maxL > 4 {
		maxL = 4
	}
	cs.l = 1 + c.ChooseFree(maxL, "file-len")
	cs.batch = []int{0, 1, 2, 3}[c.ChooseFree(4, "batch")]
	kinds := []string{"none", "link", "pow", "bits", "magic", "truncated", "count", "fstart"}
	cs.corrupt = kinds[c.ChooseFree(len(kinds), "corrupt")]
	if cs.corrupt == "link" || cs.corrupt == "pow" || cs.corrupt == "bits" {
		cs.pos = c.ChooseFree(cs.l, "corrupt-pos")
	}
	if cs.corrupt == "none" || cs.corrupt == "link" || cs.corrupt == "bits" {
		cs.cancelled = c.ChooseFree(2, "context-cancelled") == 1
	}
	return cs
}

func c14Body(tier string, faults bool) func(c *verifeng.Chooser) {
	f := getFixture()
	return func(c *verifeng.Chooser) {
		cs := enumerateCase(c, tier)
		if faults && cs.corrupt != "none" {
			// fault runs use intact files only (corruption and faults are
			// explored separately)
			c.Obs("skipped: corrupt file in fault run")
			return
		}
		env := verifhfs.NewEnv(c)
		defer env.Cleanup()
		env.Quiet = true
		bs, err := headerfs.NewBlockHeaderStore(env.Dir, env.DB, f.p)
		if err != nil {
			panic(verifeng.InfraError{Msg: "setup: " + err.Error()})
		}
		fs, err := headerfs.NewFilterHeaderStore(env.Dir, env.DB, headerfs.RegularFilter, f.p, nil)
		if err != nil {
			panic(verifeng.InfraError{Msg: "setup: " + err.Error()})
		}
		gfh, _, err := fs.ChainTip()
		if err != nil {
			panic(verifeng.InfraError{Msg: "setup: " + err.Error()})
		}
		target := f.main
		if cs.forked {
			target = f.fork
		}
		tfh := fhOf(target, *gfh)
		mfh := fhOf(f.main, *gfh)
		for h := 1; h <= cs.bt; h++ {
			hd := target[h].Hdr
			if err := bs.WriteHeaders(headerfs.BlockHeader{BlockHeader: &hd, Height: uint32(h)}); err != nil {
				panic(verifeng.InfraError{Msg: "setup: " + err.Error()})
			}
		}
		ft := cs.bt - cs.lag
		if cs.fmis {
			tfh = append([]chainhash.Hash(nil), tfh...)
			tfh[ft][7] ^= 0x5a
		}
		for h := 1; h <= ft; h++ {
			if err := fs.WriteHeaders(headerfs.FilterHeader{HeaderHash: target[h].Hash, FilterHash: tfh[h], Height: uint32(h)}); err != nil {
				panic(verifeng.InfraError{Msg: "setup: " + err.Error()})
			}
		}
		pre, err := readState(bs, fs)
		if err != nil {
			panic(verifeng.InfraError{Msg: "setup read: " + err.Error()})
		}

		// the import files
		e := cs.s + cs.l - 1
		fileBlocks := make([]wire.BlockHeader, 0, cs.l)
		for h := cs.s; h <= e; h++ {
			fileBlocks = append(fileBlocks, f.main[h].Hdr)
		}
		invalidFrom := -1 // first file index whose header is not valid in context
		switch cs.corrupt {
		case "link":
			fileBlocks[cs.pos].PrevBlock[5] ^= 0xff
			remine(&fileBlocks[cs.pos], true)
			invalidFrom = cs.pos
		case "pow":
			remine(&fileBlocks[cs.pos], false)
			invalidFrom = cs.pos
		case "bits":
			fileBlocks[cs.pos].Bits = 0x207ffffe
			remine(&fileBlocks[cs.pos], true)
			invalidFrom = cs.pos
		}
		// a corrupted header breaks the link of its successor too; that is
		// part of the same corruption.
		var bbody, fbody []byte
		for _, h := range fileBlocks {
			buf := &byteBuf{}
			h.Serialize(buf)
			bbody = append(bbody, buf.b...)
		}
		for h := cs.s; h <= e; h++ {
			fbody = append(fbody, mfh[h][:]...)
		}
		magic := f.p.Net
		fstart := uint32(cs.s)
		switch cs.corrupt {
		case "magic":
			magic = wire.TestNet3
		case "truncated":
			bbody = bbody[:len(bbody)-7]
		case "count":
			fbody = append(fbody, mfh[0][:]...)
		case "fstart":
			fstart++
		}
		bpath := filepath.Join(env.Dir, "import_block.bin")
		fpath := filepath.Join(env.Dir, "import_filter.bin")
		if err := writeImportFile(bpath, magic, headerfs.Block, uint32(cs.s), bbody); err != nil {
			panic(verifeng.InfraError{Msg: err.Error()})
		}
		if err := writeImportFile(fpath, magic, headerfs.RegularFilter, fstart, fbody); err != nil {
			panic(verifeng.InfraError{Msg: err.Error()})
		}

		secondRun := false
		doImport := func() error {
			imp, err := chainimport.NewHeadersImport(&chainimport.ImportOptions{
				TargetChainParams:       *f.p,
				TargetBlockHeaderStore:  bs,
				TargetFilterHeaderStore: fs,
				BlockHeadersSource:      bpath,
				FilterHeadersSource:     fpath,
				WriteBatchSizePerRegion: cs.batch,
			})
			if err != nil {
				return err
			}
			ctx := context.Background()
			if cs.cancelled && !secondRun {
				cctx, cancel := context.WithCancel(ctx)
				cancel()
				ctx = cctx
			}
			_, err = imp.Import(ctx)
			if cs.cancelled && !secondRun && err == nil {
				// whatever a cancelled import did, it may not claim
				// more than it did; success is judged like any other
			}
			return err
		}

		env.Quiet = false
		env.Faults = faults
		env.BeginOp()
		impErr := doImport()
		env.Quiet = true
		c.Step("%v -> err=%v", cs, impErr != nil)
		faulted := len(env.Deviated) > 0

		// what the statement allows after success
		expect := &storeState{blocks: append([]wire.BlockHeader(nil), pre.blocks...),
			filters: append([]chainhash.Hash(nil), pre.filters...)}
		// a file starting above the next height of either store leaves a gap
		gap := cs.s > len(pre.blocks) || cs.s > len(pre.filters)
		if !gap {
			for h := len(expect.blocks); h <= e; h++ {
				expect.blocks = append(expect.blocks, fileBlocks[h-cs.s])
			}
			for h := len(expect.filters); h <= e; h++ {
				expect.filters = append(expect.filters, mfh[h])
			}
		}
		sig := fmt.Sprintf("start%d:%s", sgn(cs.s), cs.corrupt)
		if cs.forked {
			sig += ":forked"
		}
		if cs.lag > 0 {
			sig += ":lag"
		}
		if faulted {
			sig += ":fault"
		}

		check := func(err error, phase string) bool {
			if err == nil && gap {
				return c.Fail("success-on-gap", sig+":gap-accepted",
					"%s reported success although the file starts at height %d, above the stores' next heights (block tip %d, filter tip %d); case %v",
					phase, cs.s, len(pre.blocks)-1, len(pre.filters)-1, cs)
			}
			if err == nil {
				st, rerr := readState(bs, fs)
				if rerr != nil {
					return c.Fail("success-state", sig+":unreadable-after-success",
						"%s reported success but the stores cannot be read: %v; case %v", phase, rerr, cs)
				}
				if !sameState(st, expect) {
					return c.Fail("success-state", sig+":not-extended-by-file",
						"%s reported success but the stores hold %v; expected the earlier contents (%v) extended by the file's headers up to height %d = %v; case %v",
						phase, st, pre, e, expect, cs)
				}
				if bad := validChain(f, st); bad != "" {
					return c.Fail("success-invalid-chain", sig+":invalid-chain-imported",
						"%s reported success but %s; case %v", phase, bad, cs)
				}
				if cs.fmis && cs.s <= ft && e >= ft {
					return c.Fail("success-on-mismatch", sig+":filter-header-mismatch-accepted",
						"%s reported success although the file's filter header at height %d differs from the one the target store holds there (mismatch with existing data); case %v", phase, ft, cs)
				}
				switch cs.corrupt {
				case "magic", "truncated", "count", "fstart":
					return c.Fail("success-on-bad-file", sig+":bad-file-accepted",
						"%s reported success for a file with corruption %q; case %v", phase, cs.corrupt, cs)
				}
				return false
			}
			// failure: reopen, everything stored is pre-state or a
			// validated file header, stores mutually consistent.
			env.CloseFiles()
			nb, err1 := headerfs.NewBlockHeaderStore(env.Dir, env.DB, f.p)
			var nf headerfs.FilterHeaderStore
			var err2 error
			if err1 == nil {
				nf, err2 = headerfs.NewFilterHeaderStore(env.Dir, env.DB, headerfs.RegularFilter, f.p, nil)
			}
			if err1 != nil || err2 != nil {
				return c.Fail("failure-unusable", sig+":stores-do-not-reopen",
					"%s failed (%v) and afterwards the stores do not open: %v %v; case %v", phase, err, err1, err2, cs)
			}
			bs, fs = nb, nf
			st, rerr := readState(bs, fs)
			if rerr != nil {
				return c.Fail("failure-unusable", sig+":unreadable-after-failure",
					"%s failed (%v) and afterwards the stores cannot be read: %v; case %v", phase, err, rerr, cs)
			}
			if len(st.blocks) < len(pre.blocks) || len(st.filters) < len(pre.filters) ||
				len(st.blocks) > len(expect.blocks) && len(st.blocks) > len(pre.blocks) ||
				len(st.filters) > len(expect.filters) && len(st.filters) > len(pre.filters) {
				return c.Fail("failure-state", sig+":lost-or-extra-entries",
					"%s failed (%v) leaving %v; before: %v; case %v", phase, err, st, pre, cs)
			}
			for i := range st.blocks {
				if i < len(pre.blocks) && st.blocks[i] != pre.blocks[i] ||
					i >= len(pre.blocks) && st.blocks[i] != expect.blocks[i] {
					return c.Fail("failure-state", sig+":foreign-block-header",
						"%s failed (%v) and height %d holds a header that is neither the earlier one nor the file's; case %v", phase, err, i, cs)
				}
			}
			for i := range st.filters {
				if i < len(pre.filters) && st.filters[i] != pre.filters[i] ||
					i >= len(pre.filters) && st.filters[i] != expect.filters[i] {
					return c.Fail("failure-state", sig+":foreign-filter-header",
						"%s failed (%v) and filter height %d holds a value that is neither the earlier one nor the file's; case %v", phase, err, i, cs)
				}
			}
			if bad := validChain(f, st); bad != "" {
				return c.Fail("failure-unvalidated", sig+":unvalidated-header-stored",
					"%s failed (%v) but %s; case %v", phase, err, bad, cs)
			}
			if len(st.filters) > len(st.blocks) {
				return c.Fail("failure-inconsistent", sig+":filter-ahead",
					"%s failed (%v) leaving the filter tip %d ahead of the block tip %d; case %v", phase, err, len(st.filters)-1, len(st.blocks)-1, cs)
			}
			if len(st.blocks)-len(st.filters) > cs.lag {
				return c.Fail("failure-inconsistent", sig+":stores-drifted-apart",
					"%s failed (%v) leaving block tip %d and filter tip %d further apart than before (%d); case %v",
					phase, err, len(st.blocks)-1, len(st.filters)-1, cs.lag, cs)
			}
			return false
		}

		if check(impErr, "Import") {
			return
		}
		// repeat (fault-free): after a success nothing may change; after a
		// faulted failure the stores must still be usable for the same
		// import.
		env.Faults = false
		before, _ := readState(bs, fs)
		secondRun = true
		err2 := doImport()
		c.Step("second Import -> err=%v", err2 != nil)
		if impErr == nil {
			after, rerr := readState(bs, fs)
			if rerr != nil || !sameState(before, after) {
				c.Fail("not-idempotent", sig+":second-import-changes-stores",
					"a second Import (err=%v) changed the stores: %v -> %v (%v); case %v", err2, before, after, rerr, cs)
				return
			}
		} else if check(err2, "second Import") {
			return
		}
		cls := fmt.Sprintf(" [lag=%d forked=%v start>0=%v corrupt=%s]", cs.lag, cs.forked, cs.s > 0, cs.corrupt)
		if impErr == nil {
			c.Obs("success" + cls)
		} else if err2 == nil {
			c.Obs("failed-then-success" + cls)
		} else {
			c.Obs("failure" + cls)
		}
		_ = invalidFrom
	}
}

func sgn(x int) int {
	if x > 0 {
		return 1
	}
	return 0
}

type byteBuf struct{ b []byte }

func (w *byteBuf) Write(p []byte) (int, error) { w.b = append(w.b, p...); return len(p), nil }

// remine finds a nonce so that the header does / does not meet its target.
func remine(h *wire.BlockHeader, want bool) {
	for n := uint32(0); ; n++ {
		h.Nonce = n
		if verifchain.PowOK(h) == want {
			return
		}
	}
}

func TestVFXC14(t *testing.T) {
	tier := verifeng.Tier()
	if rp := os.Getenv("VFX_REPLAY"); rp != "" {
		v, err := verifeng.LoadReplay(rp)
		if err != nil {
			t.Fatal(err)
		}
		e := verifeng.FromEnv(v.Harness, v.Config)
		_, x, err := e.ReplayFile(rp, c14Body(tier, strings.Contains(v.Config, "faults=true")))
		if err != nil {
			t.Fatal(err)
		}
		for _, ev := range x.Events {
			fmt.Println("  ", ev)
		}
		if x.Viol != nil {
			fmt.Printf("REPLAY-VIOLATION clause=%s sig=%s\n%s\n", x.Viol.Clause, x.Viol.Sig, x.Viol.Detail)
		} else {
			fmt.Println("REPLAY-OK no violation")
		}
		return
	}
	for _, faults := range []bool{false, true} {
		name := "C14-import"
		if faults {
			name = "C14-import-faults"
		}
		e := verifeng.FromEnv(name, fmt.Sprintf("faults=%v chain=0..%d fork@%d", faults, c14Len-1, getFixture().forkAt))
		e.MaxDev = 0
		if faults {
			e.MaxDev = 1
		}
		e.ShardDepth = 3
		e.MaxViol = 24
		e.Run(c14Body(tier, faults))
		if err := verifeng.AppendResult(&e.Res); err != nil {
			t.Fatal(err)
		}
	}
}

package lru_test

// C16 — cache capacity and consistency. Two harnesses on the real cache/lru
// (its "sync" import rewritten to the verifvsync shim by build overlay):
//
//	a) every operation sequence up to a depth over a small alphabet, compared
//	   step by step with a sequential reference LRU (style S, state dedupe);
//	b) every interleaving of 2-3 threads x 1-2 operations at sync granularity
//	   (style T), each complete history checked for linearizability against the
//	   same reference, plus structural invariants on the final state.
//
// Only the exported API is used.

import (
	"errors"
	"fmt"
	"os"
	"sort"
	"strings"
	"testing"

	"github.com/lightninglabs/neutrino/cache/lru"
	"github.com/lightninglabs/neutrino/internal/verifeng"
)

const vfxCap = 3

// tval is a cache value. mode 0: Size always works; 1: Size always fails;
// 2: Size works on the first call (insertion) and fails afterwards.
type tval struct {
	id    int
	sz    uint64
	mode  int
	calls int
}

func (v *tval) Size() (uint64, error) {
	v.calls++
	switch {
	case v.mode == 1, v.mode == 2 && v.calls >= 2:
		return 0, errors.New("size unavailable")
	}
	return v.sz, nil
}

func (v *tval) String() string {
	if v == nil {
		return "nil"
	}
	return fmt.Sprintf("v%d", v.id)
}

type mEntry struct {
	k string
	v *tval
}

// model is the sequential reference LRU: list[0] is the most recently used.
type model struct{ list []mEntry }

func (m *model) clone() *model { return &model{append([]mEntry(nil), m.list...)} }
func (m *model) size() (s uint64) {
	for _, e := range m.list {
		s += e.v.sz
	}
	return
}
func (m *model) find(k string) int {
	for i, e := range m.list {
		if e.k == k {
			return i
		}
	}
	return -1
}
func (m *model) remove(i int) { m.list = append(m.list[:i:i], m.list[i+1:]...) }
func (m *model) put(k string, v *tval) (evicted, fail bool) {
	if v.mode == 1 || v.sz > vfxCap {
		return false, true
	}
	if i := m.find(k); i >= 0 {
		m.remove(i)
	}
	for vfxCap-m.size() < v.sz {
		m.remove(len(m.list) - 1)
		evicted = true
	}
	m.list = append([]mEntry{{k, v}}, m.list...)
	return evicted, false
}
func (m *model) get(k string) *tval {
	i := m.find(k)
	if i < 0 {
		return nil
	}
	e := m.list[i]
	m.remove(i)
	m.list = append([]mEntry{e}, m.list...)
	return e.v
}
func (m *model) del(k string) *tval {
	i := m.find(k)
	if i < 0 {
		return nil
	}
	v := m.list[i].v
	m.remove(i)
	return v
}
func (m *model) String() string {
	var b strings.Builder
	for _, e := range m.list {
		fmt.Fprintf(&b, "%s=%v/%d ", e.k, e.v, e.v.sz)
	}
	return "[" + strings.TrimSpace(b.String()) + "]"
}
func (m *model) poisoned() bool {
	for _, e := range m.list {
		if e.v.mode == 2 {
			return true
		}
	}
	return false
}

type vcache = lru.Cache[string, *tval]

// snapshot reads the observable state through the exported API and checks the
// structural invariants. It returns the list (front first) and "" or a
// description of the broken invariant.
func snapshot(c *vcache) ([]mEntry, string) {
	var filo, fifo []mEntry
	c.RangeFILO(func(k string, v *tval) bool { filo = append(filo, mEntry{k, v}); return true })
	c.RangeFIFO(func(k string, v *tval) bool { fifo = append(fifo, mEntry{k, v}); return true })
	idx := map[string]*tval{}
	n := 0
	c.Range(func(k string, v *tval) bool { idx[k] = v; n++; return true })
	if len(filo) != len(fifo) {
		return filo, fmt.Sprintf("RangeFILO has %d entries, RangeFIFO %d", len(filo), len(fifo))
	}
	for i := range filo {
		if filo[i] != fifo[len(fifo)-1-i] {
			return filo, "RangeFIFO is not the reverse of RangeFILO"
		}
	}
	if c.Len() != len(filo) {
		return filo, fmt.Sprintf("Len()=%d but %d resident entries", c.Len(), len(filo))
	}
	var sum uint64
	seen := map[string]bool{}
	for _, e := range filo {
		sum += e.v.sz
		if seen[e.k] {
			return filo, fmt.Sprintf("key %s resident twice", e.k)
		}
		seen[e.k] = true
		if idx[e.k] != e.v {
			return filo, fmt.Sprintf("resident entry %s=%v not reachable through the index (index has %v)", e.k, e.v, idx[e.k])
		}
	}
	if n != len(filo) || len(idx) != len(filo) {
		return filo, fmt.Sprintf("index has %d entries but %d are resident", n, len(filo))
	}
	if c.Size() != sum {
		return filo, fmt.Sprintf("Size()=%d but resident entries total %d", c.Size(), sum)
	}
	if sum > vfxCap {
		return filo, fmt.Sprintf("resident size %d exceeds capacity %d", sum, vfxCap)
	}
	return filo, ""
}

func safeSnapshot(c *vcache) (l []mEntry, bad string) {
	defer func() {
		if r := recover(); r != nil {
			s := fmt.Sprint(r)
			if strings.HasPrefix(s, "deadlock:") {
				bad = s
				return
			}
			panic(r)
		}
	}()
	return snapshot(c)
}

func stateKey(l []mEntry) string {
	var b strings.Builder
	for _, e := range l {
		calls := e.v.calls
		if calls > 2 {
			calls = 2
		}
		fmt.Fprintf(&b, "%s:%d:%d:%d,", e.k, e.v.sz, e.v.mode, calls)
	}
	return b.String()
}

type op struct {
	kind string // put get del lad len size
	key  string
	sz   uint64
	mode int
}

func (o op) String() string {
	switch o.kind {
	case "put":
		suffix := ""
		if o.mode == 1 {
			suffix = ",sizefails"
		} else if o.mode == 2 {
			suffix = ",sizefailslater"
		}
		return fmt.Sprintf("Put(%s,%d%s)", o.key, o.sz, suffix)
	case "len", "size":
		return o.kind
	}
	return fmt.Sprintf("%s(%s)", o.kind, o.key)
}

// apply runs o on the real cache and returns its result as a string; failed
// reports an error/not-ok return.
func apply(c *vcache, o op, v *tval) (res string, failed bool) {
	switch o.kind {
	case "put":
		ev, err := c.Put(o.key, v)
		if err != nil {
			return "error", true
		}
		return fmt.Sprintf("evicted=%v", ev), false
	case "get":
		got, err := c.Get(o.key)
		if err != nil {
			return "notfound", true
		}
		return got.String(), false
	case "del":
		c.Delete(o.key)
		return "", false
	case "lad":
		got, ok := c.LoadAndDelete(o.key)
		if !ok {
			return "notfound", true
		}
		return got.String(), false
	case "len":
		return fmt.Sprint(c.Len()), false
	case "size":
		return fmt.Sprint(c.Size()), false
	}
	panic("bad op")
}

// applyModel runs o on the model and returns the expected result string.
func applyModel(m *model, o op, v *tval) string {
	switch o.kind {
	case "put":
		ev, fail := m.put(o.key, v)
		if fail {
			return "error"
		}
		return fmt.Sprintf("evicted=%v", ev)
	case "get":
		if got := m.get(o.key); got != nil {
			return got.String()
		}
		return "notfound"
	case "del":
		m.del(o.key)
		return ""
	case "lad":
		if got := m.del(o.key); got != nil {
			return got.String()
		}
		return "notfound"
	case "len":
		return fmt.Sprint(len(m.list))
	case "size":
		return fmt.Sprint(m.size())
	}
	panic("bad op")
}

func seqAlphabet() []op {
	var a []op
	for _, k := range []string{"a", "b", "c"} {
		a = append(a, op{kind: "get", key: k})
	}
	for _, k := range []string{"a", "b", "c"} {
		for _, s := range []uint64{1, 2, 3, 4} {
			a = append(a, op{kind: "put", key: k, sz: s})
		}
	}
	for _, k := range []string{"a", "b", "c"} {
		a = append(a, op{kind: "del", key: k}, op{kind: "lad", key: k})
	}
	a = append(a, op{kind: "put", key: "a", sz: 1, mode: 1})
	for _, k := range []string{"a", "b"} {
		for _, s := range []uint64{1, 2} {
			a = append(a, op{kind: "put", key: k, sz: s, mode: 2})
		}
	}
	return a
}

// seqBody: one sequential history.
func seqBody(depth int) func(c *verifeng.Chooser) {
	alpha := seqAlphabet()
	return func(c *verifeng.Chooser) {
		cache := lru.NewCache[string, *tval](vfxCap)
		m := &model{}
		nextID := 0
		for d := 0; d < depth; d++ {
			if c.Visit(stateKey(m.list), depth-d) {
				return
			}
			o := alpha[c.ChooseFree(len(alpha), "op")]
			nextID++
			v := &tval{id: nextID, sz: o.sz, mode: o.mode}
			poisoned := m.poisoned()
			pre := append([]mEntry(nil), m.list...)
			res, failed := applyReal(c, cache, o, v)
			if c.Failed() {
				return
			}
			c.Step("%v -> %s", o, res)
			exp := applyModel(m, o, v)
			list, bad := safeSnapshot(cache)
			if strings.HasPrefix(bad, "deadlock:") {
				c.Fail("unusable", "seq:"+o.kind+":cache-blocked-forever",
					"after %v (which returned %q) the cache can no longer be used: %s", o, res, bad)
				return
			}
			if bad != "" {
				c.Fail("invariant", "seq:"+o.kind+":invariant:"+sigOf(bad),
					"after %v: %s (model before op had poisoned=%v)", o, bad, poisoned)
				return
			}
			if failed && poisoned && res != exp {
				// A resident value whose size cannot be computed made the
				// operation fail: the statement only demands that the cache
				// stays usable. Invariants hold; adopt the real state.
				c.Note("operation failed on an uncomputable resident size; model resynchronised")
				m.list = list
				continue
			}
			if o.kind == "del" && poisoned && sameList(list, pre) {
				// Delete has no result; with an uncomputable resident size
				// it may fail silently, leaving the cache as it was.
				c.Note("Delete failed silently on an uncomputable resident size")
				continue
			}
			if res != exp {
				c.Fail("result", "seq:"+o.kind+":result",
					"%v returned %q, reference LRU says %q; reference state %v",
					o, res, exp, m)
				return
			}
			if !sameList(list, m.list) {
				c.Fail("state", "seq:"+o.kind+":state",
					"after %v the cache holds %v, reference LRU holds %v",
					o, &model{list}, m)
				return
			}
		}
		c.Obs(stateKey(m.list))
	}
}

// applyReal wraps apply, turning the shim's "mutex never released" panic into
// a violation of the "failed operation leaves the cache usable" clause.
func applyReal(c *verifeng.Chooser, cache *vcache, o op, v *tval) (res string, failed bool) {
	defer func() {
		if r := recover(); r != nil {
			s := fmt.Sprint(r)
			if strings.HasPrefix(s, "deadlock:") {
				c.Fail("unusable", "seq:"+o.kind+":blocked-forever",
					"%v can never return: %s", o, s)
				return
			}
			panic(r)
		}
	}()
	return apply(cache, o, v)
}

func sigOf(bad string) string {
	// keep the words, drop the numbers, so the signature names the clause
	f := strings.FieldsFunc(bad, func(r rune) bool {
		return !(r >= 'a' && r <= 'z' || r >= 'A' && r <= 'Z')
	})
	if len(f) > 4 {
		f = f[:4]
	}
	return strings.Join(f, "-")
}

func sameList(a, b []mEntry) bool {
	if len(a) != len(b) {
		return false
	}
	for i := range a {
		if a[i] != b[i] {
			return false
		}
	}
	return true
}

// ---------------------------------------------------------------- threads

type call struct {
	thread, idx int
	o           op
	v           *tval
	call, ret   int
	res         string
	done        bool
}

type scenario struct {
	setup []op
	progs [][]op
}

func (s scenario) String() string {
	var b strings.Builder
	fmt.Fprintf(&b, "setup=%v", s.setup)
	for i, p := range s.progs {
		fmt.Fprintf(&b, " T%d=%v", i, p)
	}
	return b.String()
}

func concOps() []op {
	return []op{
		{kind: "put", key: "a", sz: 1},
		{kind: "put", key: "a", sz: 2},
		{kind: "put", key: "b", sz: 1},
		{kind: "put", key: "b", sz: 3},
		{kind: "get", key: "a"},
		{kind: "get", key: "b"},
		{kind: "lad", key: "a"},
		{kind: "lad", key: "b"},
		{kind: "len"},
		{kind: "size"},
	}
}

func setups() [][]op {
	pa1 := op{kind: "put", key: "a", sz: 1}
	pb1 := op{kind: "put", key: "b", sz: 1}
	pb2 := op{kind: "put", key: "b", sz: 2}
	return [][]op{{}, {pa1}, {pa1, pb1}, {pa1, pb2}, {pb2, pa1}}
}

// concBody explores one scenario.
func concBody(sc scenario) func(c *verifeng.Chooser) {
	return func(c *verifeng.Chooser) {
		cache := lru.NewCache[string, *tval](vfxCap)
		m := &model{}
		id := 0
		for _, o := range sc.setup {
			id++
			v := &tval{id: id, sz: o.sz, mode: o.mode}
			apply(cache, o, v)
			applyModel(m, o, v)
		}
		s := verifeng.NewSched(c)
		var calls []*call
		for ti, prog := range sc.progs {
			ti, prog := ti, prog
			var mine []*call
			for i, o := range prog {
				id++
				cl := &call{thread: ti, idx: i, o: o,
					v: &tval{id: id, sz: o.sz, mode: o.mode}}
				mine = append(mine, cl)
				calls = append(calls, cl)
			}
			s.Go(fmt.Sprintf("T%d", ti), func() {
				for _, cl := range mine {
					cl.call = s.Tick()
					cl.res, _ = apply(cache, cl.o, cl.v)
					cl.ret = s.Tick()
					cl.done = true
				}
			})
		}
		s.Run()
		if strings.HasPrefix(s.Panic, "INFRA:") {
			panic(verifeng.InfraError{Msg: s.Panic})
		}
		var hist []string
		sorted := append([]*call(nil), calls...)
		sort.Slice(sorted, func(i, j int) bool { return sorted[i].call < sorted[j].call })
		for _, cl := range sorted {
			if cl.call == 0 {
				continue
			}
			r := cl.res
			if !cl.done {
				r = "(never returned)"
			}
			hist = append(hist, fmt.Sprintf("T%d %v [%d,%d] -> %s", cl.thread, cl.o, cl.call, cl.ret, r))
		}
		for _, h := range hist {
			c.Step("%s", h)
		}
		kinds := progKinds(sc)
		if s.Panic != "" {
			c.Fail("panic", "conc:"+kinds+":panic", "%s\nscenario %v", s.Panic, sc)
			return
		}
		if s.Deadlock {
			c.Fail("deadlock", "conc:"+kinds+":deadlock",
				"no thread can run: %v; scenario %v", s.Blocked, sc)
			return
		}
		list, bad := snapshot(cache)
		if bad != "" {
			c.Fail("invariant", "conc:"+kinds+":invariant:"+sigOf(bad),
				"final state: %s; scenario %v; history %v", bad, sc, hist)
			return
		}
		if !linearizable(m, calls, list) {
			c.Fail("linearizability", "conc:"+kinds+":not-linearizable",
				"no sequential order of the calls explains the results and the "+
					"final state %v; scenario %v; history %v", &model{list}, sc, hist)
			return
		}
		c.Obs(strings.Join(hist, ";") + "|" + stateKey(list))
	}
}

func progKinds(sc scenario) string {
	var ks []string
	for _, p := range sc.progs {
		var k []string
		for _, o := range p {
			k = append(k, o.kind)
		}
		ks = append(ks, strings.Join(k, "+"))
	}
	sort.Strings(ks)
	return strings.Join(ks, "|")
}

// linearizable: brute-force search for a total order of the calls that
// respects real-time order, reproduces every result on the reference LRU and
// ends in the observed final state.
func linearizable(m0 *model, calls []*call, final []mEntry) bool {
	n := len(calls)
	used := make([]bool, n)
	var rec func(m *model, k int) bool
	rec = func(m *model, k int) bool {
		if k == n {
			return sameList(m.list, final)
		}
		for i, cl := range calls {
			if used[i] {
				continue
			}
			ok := true
			for j, other := range calls {
				if j != i && !used[j] && other.ret < cl.call {
					ok = false
					break
				}
			}
			if !ok {
				continue
			}
			m2 := m.clone()
			if applyModel(m2, cl.o, cl.v) != cl.res {
				continue
			}
			used[i] = true
			if rec(m2, k+1) {
				used[i] = false
				return true
			}
			used[i] = false
		}
		return false
	}
	return rec(m0, 0)
}

func scenarios(tier string) (out []scenario, bounds []int) {
	ops := concOps()
	thorough := tier == "thorough"
	add := func(sc scenario, b int) { out = append(out, sc); bounds = append(bounds, b) }
	// 2 threads x 1 op, all interleavings.
	for _, su := range setups() {
		for i := range ops {
			for j := i; j < len(ops); j++ {
				add(scenario{su, [][]op{{ops[i]}, {ops[j]}}}, -1)
			}
		}
	}
	// 2 threads x 2 ops, all interleavings.
	var seqs [][]op
	for _, x := range ops {
		for _, y := range ops {
			seqs = append(seqs, []op{x, y})
		}
	}
	for _, su := range setups() {
		for i := range seqs {
			for j := i; j < len(seqs); j++ {
				add(scenario{su, [][]op{seqs[i], seqs[j]}}, -1)
			}
		}
	}
	// 3 threads x 1 op, all interleavings.
	for _, su := range setups() {
		for i := range ops {
			for j := i; j < len(ops); j++ {
				for k := j; k < len(ops); k++ {
					add(scenario{su, [][]op{{ops[i]}, {ops[j]}, {ops[k]}}}, -1)
				}
			}
		}
	}
	if !thorough {
		return
	}
	// thorough: 3 threads x 2 ops over the six colliding operations, <= 3
	// preemptions; 2 threads x 3 ops, all interleavings.
	core := []op{ops[0], ops[1], ops[3], ops[4], ops[6], ops[7]}
	var cseq [][]op
	for _, x := range core {
		for _, y := range core {
			cseq = append(cseq, []op{x, y})
		}
	}
	for _, si := range []int{0, 3} {
		su := setups()[si]
		for i := range cseq {
			for j := i; j < len(cseq); j++ {
				for k := j; k < len(cseq); k++ {
					add(scenario{su, [][]op{cseq[i], cseq[j], cseq[k]}}, 3)
				}
			}
		}
	}
	var tri [][]op
	for _, x := range core {
		for _, y := range core {
			for _, z := range core {
				tri = append(tri, []op{x, y, z})
			}
		}
	}
	for _, si := range []int{0, 3} {
		su := setups()[si]
		for i := range tri {
			for j := i; j < len(tri); j++ {
				add(scenario{su, [][]op{tri[i], tri[j]}}, -1)
			}
		}
	}
	return
}

func TestVFXC16(t *testing.T) {
	tier := verifeng.Tier()
	shard, nshards := 0, 1
	fmt.Sscan(os.Getenv("VFX_SHARD"), &shard)
	fmt.Sscan(os.Getenv("VFX_NSHARDS"), &nshards)
	if nshards < 1 {
		nshards = 1
	}
	if rp := os.Getenv("VFX_REPLAY"); rp != "" {
		replayC16(t, rp)
		return
	}

	// a) sequential histories (shard 0 only; tiny after dedupe).
	if shard == 0 {
		depth := 8
		if tier == "thorough" {
			depth = 12
		}
		e := verifeng.FromEnv("C16a-seq", fmt.Sprintf("depth=%d cap=%d alphabet=%d", depth, vfxCap, len(seqAlphabet())))
		e.NShards = 1
		e.Dedupe = true
		e.Run(seqBody(depth))
		if err := verifeng.AppendResult(&e.Res); err != nil {
			t.Fatal(err)
		}
	}

	// b) interleavings.
	scs, bounds := scenarios(tier)
	agg := &verifeng.Result{Harness: "C16b-threads", Exhaustive: true,
		Config: fmt.Sprintf("tier=%s scenarios=%d cap=%d", tier, len(scs), vfxCap),
		Shard:  shard, NShards: nshards, BoundCompleted: -1}
	agg.Extra = map[string]int64{}
	for i, sc := range scs {
		if i%nshards != shard {
			continue
		}
		e := verifeng.FromEnv("C16b-threads", fmt.Sprintf("%v bound=%d", sc, bounds[i]))
		e.NShards = 1
		e.MaxDev = bounds[i]
		e.AuditEvery = 512
		e.Run(concBody(sc))
		agg.Extra["scenarios"]++
		if e.Res.Exhaustive {
			agg.Extra["scenarios_exhaustive"]++
		}
		verifeng.Merge(agg, &e.Res)
		if len(agg.Violations) >= 8 || agg.Infra != "" {
			agg.Exhaustive = false
			break
		}
		if d := verifeng.Deadline(); !d.IsZero() && e.Res.WallS > 0 && !e.Res.Exhaustive {
			break
		}
	}
	if err := verifeng.AppendResult(agg); err != nil {
		t.Fatal(err)
	}
}

func replayC16(t *testing.T, path string) {
	v, err := verifeng.LoadReplay(path)
	if err != nil {
		t.Fatal(err)
	}
	e := verifeng.FromEnv(v.Harness, v.Config)
	var body func(c *verifeng.Chooser)
	if v.Harness == "C16a-seq" {
		var depth int
		fmt.Sscanf(v.Config, "depth=%d", &depth)
		body = seqBody(depth)
	} else {
		scs, _ := scenarios("thorough")
		for _, sc := range scs {
			if strings.HasPrefix(v.Config, sc.String()+" bound=") {
				body = concBody(sc)
			}
		}
	}
	if body == nil {
		t.Fatalf("cannot find scenario %q", v.Config)
	}
	_, x, err := e.ReplayFile(path, body)
	if err != nil {
		t.Fatal(err)
	}
	for _, ev := range x.Events {
		fmt.Println("  ", ev)
	}
	if x.Viol != nil {
		fmt.Printf("REPLAY-VIOLATION clause=%s sig=%s\n%s\n", x.Viol.Clause, x.Viol.Sig, x.Viol.Detail)
	} else {
		fmt.Println("REPLAY-OK no violation")
	}
}

package lru_test

// C18 for cache/lru: the cooperative scheduler of C16 hides data races (its
// hand-offs are happens-before edges), so the same operations run here on the
// unshimmed cache from free-running goroutines in a race-detector build:
// every unordered pair (and every triple with Range) of operations on
// colliding keys, repeated. The oracle is the race detector alone.

import (
	"fmt"
	"runtime"
	"sync"
	"testing"

	"github.com/lightninglabs/neutrino/cache/lru"
	"github.com/lightninglabs/neutrino/internal/verifeng"
)

type rval struct{ sz uint64 }

func (v *rval) Size() (uint64, error) { return v.sz, nil }

func TestVFXC18LRU(t *testing.T) {
	type op struct {
		name string
		run  func(c *lru.Cache[int, *rval])
	}
	ops := []op{
		{"Put(1)", func(c *lru.Cache[int, *rval]) { c.Put(1, &rval{1}) }},
		{"Put(2,size 2)", func(c *lru.Cache[int, *rval]) { c.Put(2, &rval{2}) }},
		{"Put(4)", func(c *lru.Cache[int, *rval]) { c.Put(4, &rval{1}) }},
		{"Get(1)", func(c *lru.Cache[int, *rval]) { c.Get(1) }},
		{"Get(2)", func(c *lru.Cache[int, *rval]) { c.Get(2) }},
		{"Delete(1)", func(c *lru.Cache[int, *rval]) { c.Delete(1) }},
		{"LoadAndDelete(2)", func(c *lru.Cache[int, *rval]) { c.LoadAndDelete(2) }},
		{"Len", func(c *lru.Cache[int, *rval]) { c.Len() }},
		{"Size", func(c *lru.Cache[int, *rval]) { c.Size() }},
		{"Range", func(c *lru.Cache[int, *rval]) { c.Range(func(int, *rval) bool { return true }) }},
		{"RangeFIFO", func(c *lru.Cache[int, *rval]) { c.RangeFIFO(func(int, *rval) bool { return true }) }},
	}
	reps := 100
	if verifeng.Tier() == "thorough" {
		reps = 1000
	}
	shard, nshards := 0, 1
	e := verifeng.FromEnv("C18-lru-pairs", fmt.Sprintf("ops=%d reps=%d", len(ops), reps))
	shard, nshards = e.Shard, e.NShards
	res := verifeng.Result{Harness: e.Harness, Config: e.Config, Shard: shard, NShards: nshards, Exhaustive: true}
	n := 0
	for i := range ops {
		for j := i; j < len(ops); j++ {
			n++
			if n%nshards != shard {
				continue
			}
			for r := 0; r < reps; r++ {
				c := lru.NewCache[int, *rval](3, lru.WithDeleteCallback(func(int, *rval) {}))
				c.Put(1, &rval{1})
				c.Put(2, &rval{1})
				var wg sync.WaitGroup
				start := make(chan struct{})
				for _, o := range []op{ops[i], ops[j], ops[(i+j)%len(ops)]} {
					o := o
					wg.Add(1)
					go func() {
						defer wg.Done()
						<-start
						if r%2 == 1 {
							runtime.Gosched()
						}
						o.run(c)
					}()
				}
				close(start)
				wg.Wait()
				res.Executions++
				res.Owned++
				res.Transitions += 3
			}
			if len(res.Samples) < 3 {
				res.Samples = append(res.Samples, verifeng.Sample{Index: int64(n),
					Events: []string{ops[i].name + " || " + ops[j].name + " || " + ops[(i+j)%len(ops)].name}})
			}
		}
	}
	res.States = res.Owned
	res.DistinctObs = res.Owned / int64(reps)
	if err := verifeng.AppendResult(&res); err != nil {
		t.Fatal(err)
	}
}

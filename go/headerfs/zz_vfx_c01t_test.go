package headerfs_test

// C01 (lookups agree with one another) under concurrency: lookups running
// while the single writer reorganises the block header store. The store's
// "sync" import is rewritten to the scheduler shim by build overlay, so every
// lock operation — and, through a hook of the in-memory walletdb, every
// database transaction — is a scheduling point; every interleaving of one
// writer program with one or two reader programs is enumerated. Each lookup
// result must equal what the sequential reference gives in one of the store
// states that existed between the lookup's call and its return.

import (
	"fmt"
	"os"
	"strings"
	"testing"

	"github.com/btcsuite/btcd/chainhash/v2"
	"github.com/btcsuite/btcd/wire/v2"
	"github.com/lightninglabs/neutrino/headerfs"
	"github.com/lightninglabs/neutrino/internal/verifeng"
	"github.com/lightninglabs/neutrino/internal/verifhfs"
)

type c01tFix struct {
	trunk []wire.BlockHeader // G T1 T2 T3 T4
	fork  []wire.BlockHeader // B2 B3 B4 (children of T1)
	alt3  wire.BlockHeader   // X3, a sibling of T3
	names map[chainhash.Hash]string
}

func getC01TFix() *c01tFix {
	f := &c01tFix{names: map[chainhash.Hash]string{}}
	g := vfxParams.GenesisBlock.Header
	f.trunk = []wire.BlockHeader{g}
	f.names[g.BlockHash()] = "G"
	for h := uint32(1); h <= 4; h++ {
		hd := mkHeader(&f.trunk[h-1], h, 'T')
		f.trunk = append(f.trunk, hd)
		f.names[hd.BlockHash()] = fmt.Sprintf("T%d", h)
	}
	prev := f.trunk[1]
	for h := uint32(2); h <= 4; h++ {
		hd := mkHeader(&prev, h, 'B')
		f.fork = append(f.fork, hd)
		f.names[hd.BlockHash()] = fmt.Sprintf("B%d", h)
		prev = hd
	}
	f.alt3 = mkHeader(&f.trunk[2], 3, 'X')
	f.names[f.alt3.BlockHash()] = "X3"
	return f
}

func (f *c01tFix) name(h chainhash.Hash) string {
	if n, ok := f.names[h]; ok {
		return n
	}
	return "?" + h.String()[:6]
}

func (f *c01tFix) chainStr(hs []wire.BlockHeader) string {
	var l []string
	for i := range hs {
		l = append(l, f.name(hs[i].BlockHash()))
	}
	return strings.Join(l, ",")
}

// a writer program is a list of steps; each step is one store call and the
// chain the store holds once it has returned
type c01tStep struct {
	name  string
	run   func(b headerfs.BlockHeaderStore) error
	after func(chain []wire.BlockHeader) []wire.BlockHeader
}

type c01tRead struct {
	name string
	// run performs the lookup on the store; ref evaluates it on a chain
	run func(b headerfs.BlockHeaderStore) string
	ref func(chain []wire.BlockHeader) string
}

func c01tPrograms(f *c01tFix) (map[string][]c01tStep, []c01tRead) {
	bh := func(h wire.BlockHeader, height uint32) headerfs.BlockHeader {
		hh := h
		return headerfs.BlockHeader{BlockHeader: &hh, Height: height}
	}
	write := func(hs ...headerfs.BlockHeader) c01tStep {
		var l []string
		for _, h := range hs {
			l = append(l, f.name(h.BlockHash()))
		}
		return c01tStep{
			name: "WriteHeaders(" + strings.Join(l, ",") + ")",
			run:  func(b headerfs.BlockHeaderStore) error { return b.WriteHeaders(hs...) },
			after: func(c []wire.BlockHeader) []wire.BlockHeader {
				for _, h := range hs {
					c = append(c, *h.BlockHeader)
				}
				return c
			},
		}
	}
	rollLast := c01tStep{
		name:  "RollbackLastBlock",
		run:   func(b headerfs.BlockHeaderStore) error { _, err := b.RollbackLastBlock(); return err },
		after: func(c []wire.BlockHeader) []wire.BlockHeader { return c[:len(c)-1] },
	}
	rollN := func(n uint32) c01tStep {
		return c01tStep{
			name:  fmt.Sprintf("RollbackBlockHeaders(%d)", n),
			run:   func(b headerfs.BlockHeaderStore) error { _, err := b.RollbackBlockHeaders(n); return err },
			after: func(c []wire.BlockHeader) []wire.BlockHeader { return c[:len(c)-int(n)] },
		}
	}
	progs := map[string][]c01tStep{
		"reorg-depth-1":  {rollLast, write(bh(f.alt3, 3))},                                        // -> G T1 T2 X3
		"reorg-depth-2":  {rollN(2), write(bh(f.fork[0], 2), bh(f.fork[1], 3), bh(f.fork[2], 4))}, // -> G T1 B2 B3 B4
		"extend":         {write(bh(f.trunk[4], 4))},
		"reorg-stepwise": {rollLast, rollLast, write(bh(f.fork[0], 2)), write(bh(f.fork[1], 3))},
	}
	heightOf := func(c []wire.BlockHeader, h chainhash.Hash) int {
		for i := range c {
			if c[i].BlockHash() == h {
				return i
			}
		}
		return -1
	}
	var reads []c01tRead
	for _, target := range []wire.BlockHeader{f.trunk[3], f.trunk[2], f.fork[1], f.alt3} {
		target := target
		th := target.BlockHash()
		reads = append(reads, c01tRead{
			name: "FetchHeader(" + f.name(th) + ")",
			run: func(b headerfs.BlockHeaderStore) string {
				hd, ht, err := b.FetchHeader(&th)
				if err != nil {
					return "not found"
				}
				return fmt.Sprintf("%s@%d", f.name(hd.BlockHash()), ht)
			},
			ref: func(c []wire.BlockHeader) string {
				i := heightOf(c, th)
				if i < 0 {
					return "not found"
				}
				return fmt.Sprintf("%s@%d", f.name(th), i)
			},
		}, c01tRead{
			name: "FetchHeaderAncestors(2," + f.name(th) + ")",
			run: func(b headerfs.BlockHeaderStore) string {
				hs, start, err := b.FetchHeaderAncestors(2, &th)
				if err != nil {
					return "not found"
				}
				return fmt.Sprintf("%s from %d", f.chainStr(hs), start)
			},
			ref: func(c []wire.BlockHeader) string {
				i := heightOf(c, th)
				if i < 2 {
					return "not found"
				}
				return fmt.Sprintf("%s from %d", f.chainStr(c[i-2:i+1]), i-2)
			},
		})
	}
	reads = append(reads, c01tRead{
		name: "FetchHeaderByHeight(3)",
		run: func(b headerfs.BlockHeaderStore) string {
			hd, err := b.FetchHeaderByHeight(3)
			if err != nil {
				return "not found"
			}
			return f.name(hd.BlockHash())
		},
		ref: func(c []wire.BlockHeader) string {
			if len(c) <= 3 {
				return "not found"
			}
			return f.name(c[3].BlockHash())
		},
	}, c01tRead{
		name: "ChainTip",
		run: func(b headerfs.BlockHeaderStore) string {
			hd, ht, err := b.ChainTip()
			if err != nil {
				return "error: " + err.Error()
			}
			return fmt.Sprintf("%s@%d", f.name(hd.BlockHash()), ht)
		},
		ref: func(c []wire.BlockHeader) string {
			return fmt.Sprintf("%s@%d", f.name(c[len(c)-1].BlockHash()), len(c)-1)
		},
	}, c01tRead{
		name: "LatestBlockLocator",
		run: func(b headerfs.BlockHeaderStore) string {
			loc, err := b.LatestBlockLocator()
			if err != nil {
				return "error: " + err.Error()
			}
			var l []string
			for _, h := range loc {
				l = append(l, f.name(*h))
			}
			return strings.Join(l, ",")
		},
		ref: func(c []wire.BlockHeader) string {
			var l []string
			for j := len(c) - 1; j >= 0; j-- {
				l = append(l, f.name(c[j].BlockHash()))
			}
			return strings.Join(l, ",")
		},
	})
	return progs, reads
}

type c01tCall struct {
	r         c01tRead
	call, ret int
	res       string
	done      bool
}

func c01tBody(f *c01tFix, progName string, nreaders, perReader int) func(c *verifeng.Chooser) {
	progs, reads := c01tPrograms(f)
	prog := progs[progName]
	return func(c *verifeng.Chooser) {
		env := verifhfs.NewEnv(c)
		env.Quiet = true
		env.MemFiles = true
		defer env.Cleanup()
		st, err := openStores(env)
		if err != nil {
			panic(verifeng.InfraError{Msg: "setup: " + err.Error()})
		}
		chain := append([]wire.BlockHeader{}, f.trunk[:4]...)
		var hs []headerfs.BlockHeader
		for i := 1; i < 4; i++ {
			h := f.trunk[i]
			hs = append(hs, headerfs.BlockHeader{BlockHeader: &h, Height: uint32(i)})
		}
		if err := st.b.WriteHeaders(hs...); err != nil {
			panic(verifeng.InfraError{Msg: "setup: " + err.Error()})
		}
		// reader programs
		var rprogs [][]c01tRead
		for r := 0; r < nreaders; r++ {
			var p []c01tRead
			for k := 0; k < perReader; k++ {
				p = append(p, reads[c.ChooseFree(len(reads), "lookup")])
			}
			rprogs = append(rprogs, p)
		}
		s := verifeng.NewSched(c)
		env.DB.OnBegin = func(bool) { s.Point("db.begin") }
		env.OnRead = func() { s.Point("file.read") }
		defer func() { env.DB.OnBegin = nil; env.OnRead = nil }()
		// states[i] is the chain after i writer steps; since[i] the tick
		// at which it became current, until[i] the tick at which the next
		// step started (it may be half applied from then on)
		states := [][]wire.BlockHeader{append([]wire.BlockHeader{}, chain...)}
		since := []int{0}
		started := []int{}
		var werr error
		s.Go("W", func() {
			cur := chain
			for _, stp := range prog {
				started = append(started, s.Tick())
				if err := stp.run(st.b); err != nil {
					werr = fmt.Errorf("%s: %v", stp.name, err)
					return
				}
				cur = stp.after(append([]wire.BlockHeader{}, cur...))
				states = append(states, cur)
				since = append(since, s.Tick())
			}
		})
		var calls []*c01tCall
		for r, p := range rprogs {
			var mine []*c01tCall
			for _, rd := range p {
				cl := &c01tCall{r: rd}
				mine = append(mine, cl)
				calls = append(calls, cl)
			}
			s.Go(fmt.Sprintf("R%d", r), func() {
				for _, cl := range mine {
					cl.call = s.Tick()
					cl.res = cl.r.run(st.b)
					cl.ret = s.Tick()
					cl.done = true
				}
			})
		}
		s.Run()
		if strings.HasPrefix(s.Panic, "INFRA:") {
			panic(verifeng.InfraError{Msg: s.Panic})
		}
		if s.Panic != "" {
			c.Fail("panic", "panic:"+firstWord(s.Panic), "%s", s.Panic)
			return
		}
		if s.Deadlock {
			c.Fail("deadlock", "deadlock", "threads blocked for ever: %v", s.Blocked)
			return
		}
		if werr != nil {
			c.Fail("writer", "writer-error", "the writer failed: %v", werr)
			return
		}
		for _, cl := range calls {
			if !cl.done {
				c.Fail("C01", "C01:lookup-never-returned", "%s never returned", cl.r.name)
				return
			}
			c.Step("%s [%d,%d] -> %s", cl.r.name, cl.call, cl.ret, cl.res)
			// state i is observable during [since[i], since[i+1]] (while
			// step i+1 runs either state may be what a lookup sees)
			ok := false
			var allowed []string
			for i := range states {
				end := 1 << 30
				if i+1 < len(since) {
					end = since[i+1]
				}
				// (a step takes effect somewhere between its start and
				// its return)
				begin := 0
				if i > 0 {
					begin = started[i-1]
				}
				if cl.ret < begin || cl.call > end {
					continue
				}
				want := cl.r.ref(states[i])
				allowed = append(allowed, fmt.Sprintf("%q (store holds %s)", want, f.chainStr(states[i])))
				if want == cl.res {
					ok = true
				}
			}
			if !ok {
				c.Fail("C01", "C01:concurrent-lookup-inconsistent:"+strings.Split(cl.r.name, "(")[0],
					"%s, running while the writer did %s, returned %q; in every state the store was in during the call the answer is one of: %s",
					cl.r.name, progName, cl.res, strings.Join(allowed, "; "))
				return
			}
		}
		c.Obs(fmt.Sprintf("%s final=%s", progName, f.chainStr(states[len(states)-1])))
	}
}

func firstWord(s string) string {
	if i := strings.IndexAny(s, "\n:"); i > 0 {
		s = s[:i]
	}
	if len(s) > 60 {
		s = s[:60]
	}
	return s
}

// ---- the filter header store under the same treatment: the writer is the
// block manager's reorganisation of depth 1 across both stores (filter
// rollback, block rollback, block append, filter append), the lookups are the
// filter store's. GetCFilter takes the committed filter headers it verifies
// against from FetchHeaderAncestors.

type c01tFState struct {
	blocks  []wire.BlockHeader
	filters []chainhash.Hash // filters[i] belongs to blocks[i]
}

func (f *c01tFix) fstr(s c01tFState) string {
	return fmt.Sprintf("blocks %s, filter headers up to height %d", f.chainStr(s.blocks), len(s.filters)-1)
}

func c01tFilterBody(f *c01tFix, nreaders int) func(c *verifeng.Chooser) {
	type step struct {
		name  string
		run   func(st *stores, cur c01tFState) error
		after func(cur c01tFState) c01tFState
	}
	type read struct {
		name string
		run  func(st *stores) string
		ref  func(s c01tFState) string
	}
	fname := func(s c01tFState, h chainhash.Hash) string {
		for i := range s.filters {
			if s.filters[i] == h {
				return "f(" + f.name(s.blocks[i].BlockHash()) + ")"
			}
		}
		return "?" + h.String()[:6]
	}
	return func(c *verifeng.Chooser) {
		env := verifhfs.NewEnv(c)
		env.Quiet = true
		env.MemFiles = true
		defer env.Cleanup()
		st, err := openStores(env)
		if err != nil {
			panic(verifeng.InfraError{Msg: "setup: " + err.Error()})
		}
		gf, _, err := st.f.ChainTip()
		if err != nil {
			panic(verifeng.InfraError{Msg: "setup: " + err.Error()})
		}
		init := c01tFState{blocks: append([]wire.BlockHeader{}, f.trunk[:4]...), filters: []chainhash.Hash{*gf}}
		for i := 1; i < 4; i++ {
			h := f.trunk[i]
			if err := st.b.WriteHeaders(headerfs.BlockHeader{BlockHeader: &h, Height: uint32(i)}); err != nil {
				panic(verifeng.InfraError{Msg: "setup: " + err.Error()})
			}
			fh := mkFilterHeader(&h, init.filters[i-1])
			init.filters = append(init.filters, fh)
			if err := st.f.WriteHeaders(headerfs.FilterHeader{HeaderHash: h.BlockHash(), FilterHash: fh, Height: uint32(i)}); err != nil {
				panic(verifeng.InfraError{Msg: "setup: " + err.Error()})
			}
		}
		x3 := f.alt3
		fx3 := mkFilterHeader(&x3, init.filters[2])
		// every name the filter headers can have
		all := c01tFState{blocks: append(append([]wire.BlockHeader{}, init.blocks...), x3), filters: append(append([]chainhash.Hash{}, init.filters...), fx3)}
		prog := []step{
			{"F.RollbackLastBlock", func(st *stores, cur c01tFState) error {
				nt := cur.blocks[len(cur.filters)-2].BlockHash()
				_, err := st.f.RollbackLastBlock(&nt)
				return err
			}, func(cur c01tFState) c01tFState {
				return c01tFState{cur.blocks, cur.filters[:len(cur.filters)-1]}
			}},
			{"B.RollbackLastBlock", func(st *stores, cur c01tFState) error { _, err := st.b.RollbackLastBlock(); return err },
				func(cur c01tFState) c01tFState { return c01tFState{cur.blocks[:len(cur.blocks)-1], cur.filters} }},
			{"B.Write(X3)", func(st *stores, cur c01tFState) error {
				return st.b.WriteHeaders(headerfs.BlockHeader{BlockHeader: &x3, Height: 3})
			}, func(cur c01tFState) c01tFState {
				return c01tFState{append(append([]wire.BlockHeader{}, cur.blocks...), x3), cur.filters}
			}},
			{"F.Write(f(X3))", func(st *stores, cur c01tFState) error {
				return st.f.WriteHeaders(headerfs.FilterHeader{HeaderHash: x3.BlockHash(), FilterHash: fx3, Height: 3})
			}, func(cur c01tFState) c01tFState {
				return c01tFState{cur.blocks, append(append([]chainhash.Hash{}, cur.filters...), fx3)}
			}},
		}
		idx := func(s c01tFState, h chainhash.Hash) int {
			for i := range s.blocks {
				if s.blocks[i].BlockHash() == h {
					return i
				}
			}
			return -1
		}
		var reads []read
		for _, target := range []wire.BlockHeader{f.trunk[3], f.trunk[2], x3} {
			th := target.BlockHash()
			reads = append(reads, read{"F.FetchHeader(" + f.name(th) + ")", func(st *stores) string {
				h, err := st.f.FetchHeader(&th)
				if err != nil {
					return "not found"
				}
				return fname(all, *h)
			}, func(s c01tFState) string {
				i := idx(s, th)
				if i < 0 || i >= len(s.filters) {
					return "not found"
				}
				return fname(all, s.filters[i])
			}}, read{"F.FetchHeaderAncestors(2," + f.name(th) + ")", func(st *stores) string {
				hs, start, err := st.f.FetchHeaderAncestors(2, &th)
				if err != nil {
					return "not found"
				}
				var l []string
				for _, h := range hs {
					l = append(l, fname(all, h))
				}
				return fmt.Sprintf("%s from %d", strings.Join(l, ","), start)
			}, func(s c01tFState) string {
				i := idx(s, th)
				if i < 2 || i >= len(s.filters) {
					return "not found"
				}
				var l []string
				for _, h := range s.filters[i-2 : i+1] {
					l = append(l, fname(all, h))
				}
				return fmt.Sprintf("%s from %d", strings.Join(l, ","), i-2)
			}})
		}
		reads = append(reads, read{"F.FetchHeaderByHeight(3)", func(st *stores) string {
			h, err := st.f.FetchHeaderByHeight(3)
			if err != nil {
				return "not found"
			}
			return fname(all, *h)
		}, func(s c01tFState) string {
			if len(s.filters) <= 3 {
				return "not found"
			}
			return fname(all, s.filters[3])
		}}, read{"F.ChainTip", func(st *stores) string {
			h, ht, err := st.f.ChainTip()
			if err != nil {
				return "error"
			}
			return fmt.Sprintf("%s@%d", fname(all, *h), ht)
		}, func(s c01tFState) string {
			return fmt.Sprintf("%s@%d", fname(all, s.filters[len(s.filters)-1]), len(s.filters)-1)
		}})

		var rprogs []read
		for r := 0; r < nreaders; r++ {
			rprogs = append(rprogs, reads[c.ChooseFree(len(reads), "lookup")])
		}
		s := verifeng.NewSched(c)
		env.DB.OnBegin = func(bool) { s.Point("db.begin") }
		env.OnRead = func() { s.Point("file.read") }
		defer func() { env.DB.OnBegin = nil; env.OnRead = nil }()
		states := []c01tFState{init}
		since := []int{0}
		started := []int{}
		var werr error
		s.Go("W", func() {
			cur := init
			for _, stp := range prog {
				started = append(started, s.Tick())
				if err := stp.run(st, cur); err != nil {
					werr = fmt.Errorf("%s: %v", stp.name, err)
					return
				}
				cur = stp.after(cur)
				states = append(states, cur)
				since = append(since, s.Tick())
			}
		})
		type call struct {
			r         read
			call, ret int
			res       string
			done      bool
		}
		var calls []*call
		for r, rd := range rprogs {
			cl := &call{r: rd}
			calls = append(calls, cl)
			s.Go(fmt.Sprintf("R%d", r), func() {
				cl.call = s.Tick()
				cl.res = cl.r.run(st)
				cl.ret = s.Tick()
				cl.done = true
			})
		}
		s.Run()
		if strings.HasPrefix(s.Panic, "INFRA:") {
			panic(verifeng.InfraError{Msg: s.Panic})
		}
		if s.Panic != "" {
			c.Fail("panic", "panic:"+firstWord(s.Panic), "%s", s.Panic)
			return
		}
		if s.Deadlock {
			c.Fail("deadlock", "deadlock", "threads blocked for ever: %v", s.Blocked)
			return
		}
		if werr != nil {
			c.Fail("writer", "writer-error", "the writer failed: %v", werr)
			return
		}
		for _, cl := range calls {
			if !cl.done {
				c.Fail("C01", "C01:lookup-never-returned", "%s never returned", cl.r.name)
				return
			}
			c.Step("%s [%d,%d] -> %s", cl.r.name, cl.call, cl.ret, cl.res)
			ok := false
			var allowed []string
			for i := range states {
				end := 1 << 30
				if i+1 < len(since) {
					end = since[i+1]
				}
				begin := 0
				if i > 0 {
					begin = started[i-1]
				}
				if cl.ret < begin || cl.call > end {
					continue
				}
				want := cl.r.ref(states[i])
				allowed = append(allowed, fmt.Sprintf("%q (%s)", want, f.fstr(states[i])))
				if want == cl.res {
					ok = true
				}
			}
			if !ok {
				c.Fail("C01", "C01:concurrent-lookup-inconsistent:"+strings.Split(cl.r.name, "(")[0],
					"%s, running while the writer reorganised both stores by one block, returned %q; in every state the stores were in during the call the answer is one of: %s",
					cl.r.name, cl.res, strings.Join(allowed, "; "))
				return
			}
		}
		c.Obs("filter-reorg " + f.fstr(states[len(states)-1]))
	}
}

func TestVFXC01T(t *testing.T) {
	f := getC01TFix()
	tier := verifeng.Tier()
	nreaders, per := 1, 1
	if tier == "thorough" {
		nreaders, per = 2, 1
	}
	names := []string{"reorg-depth-1", "reorg-depth-2", "extend", "reorg-stepwise"}
	if rp := os.Getenv("VFX_REPLAY"); rp != "" {
		v, err := verifeng.LoadReplay(rp)
		if err != nil {
			t.Fatal(err)
		}
		var name string
		fmt.Sscanf(v.Config, "writer=%s readers=%d per=%d", &name, &nreaders, &per)
		e := verifeng.FromEnv(v.Harness, v.Config)
		body := c01tBody(f, name, nreaders, per)
		if name == "filter-reorg" {
			body = c01tFilterBody(f, nreaders)
		}
		_, x, err := e.ReplayFile(rp, body)
		if err != nil {
			t.Fatal(err)
		}
		if x.Viol != nil {
			fmt.Printf("REPLAY-VIOLATION clause=%s sig=%s\n%s\n", x.Viol.Clause, x.Viol.Sig, x.Viol.Detail)
		} else {
			fmt.Println("REPLAY-OK no violation")
		}
		return
	}
	for _, name := range names {
		e := verifeng.FromEnv("C01T-concurrent-lookups", fmt.Sprintf("writer=%s readers=%d per=%d", name, nreaders, per))
		e.ShardDepth = 2
		e.MaxViol = 12
		e.Run(c01tBody(f, name, nreaders, per))
		if err := verifeng.AppendResult(&e.Res); err != nil {
			t.Fatal(err)
		}
	}
	e := verifeng.FromEnv("C01T-concurrent-lookups", fmt.Sprintf("writer=filter-reorg readers=%d per=1", nreaders))
	e.ShardDepth = 2
	e.MaxViol = 12
	e.Run(c01tFilterBody(f, nreaders))
	if err := verifeng.AppendResult(&e.Res); err != nil {
		t.Fatal(err)
	}
}

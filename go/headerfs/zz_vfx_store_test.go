package headerfs_test

// C07 / C08 — the header stores as an append/rollback log (C07: every
// operation sequence, with I/O faults at every durable step) and their crash
// consistency (C08: every crash point between and inside the durable steps,
// every torn-length class). Real stores, real files on tmpfs (wrapped), the
// in-memory walletdb; reference model = two Go slices.

import (
	"bytes"
	"fmt"
	"os"
	"strings"
	"testing"
	"time"

	"github.com/btcsuite/btcd/blockchain"
	"github.com/btcsuite/btcd/chaincfg/v2"
	"github.com/btcsuite/btcd/chainhash/v2"
	"github.com/btcsuite/btcd/wire/v2"
	"github.com/lightninglabs/neutrino/headerfs"
	"github.com/lightninglabs/neutrino/internal/verifeng"
	"github.com/lightninglabs/neutrino/internal/verifhfs"
)

var vfxParams = &chaincfg.RegressionNetParams

// mkHeader derives the header at a height on a branch from its predecessor.
func mkHeader(prev *wire.BlockHeader, height uint32, branch byte) wire.BlockHeader {
	var mr chainhash.Hash
	mr[0], mr[1], mr[2] = byte(height), branch, 0x5a
	return wire.BlockHeader{
		Version:    1,
		PrevBlock:  prev.BlockHash(),
		MerkleRoot: mr,
		Timestamp:  time.Unix(1500000000+int64(height)*600, 0),
		Bits:       0x207fffff,
		Nonce:      uint32(branch),
	}
}

func mkFilterHeader(block *wire.BlockHeader, prev chainhash.Hash) chainhash.Hash {
	h := block.BlockHash()
	return chainhash.DoubleHashH(append(h[:], prev[:]...))
}

// lmodel is the reference: plain lists.
type lmodel struct {
	blocks  []wire.BlockHeader
	branch  []byte
	filters []chainhash.Hash
}

func (m *lmodel) clone() *lmodel {
	return &lmodel{append([]wire.BlockHeader(nil), m.blocks...),
		append([]byte(nil), m.branch...), append([]chainhash.Hash(nil), m.filters...)}
}

func (m *lmodel) String() string {
	return fmt.Sprintf("B:%s F:%d", string(m.branch), len(m.filters)-1)
}

// assertion returns a correct filter header state assertion for the tip.
func (m *lmodel) assertion() *headerfs.FilterHeader {
	return &headerfs.FilterHeader{Height: m.ftip(), FilterHash: m.filters[m.ftip()],
		HeaderHash: m.blocks[m.ftip()].BlockHash()}
}

func (m *lmodel) btip() uint32 { return uint32(len(m.blocks) - 1) }
func (m *lmodel) ftip() uint32 { return uint32(len(m.filters) - 1) }

func (m *lmodel) heightOf(h chainhash.Hash) (uint32, bool) {
	for i := range m.blocks {
		if m.blocks[i].BlockHash() == h {
			return uint32(i), true
		}
	}
	return 0, false
}

func (m *lmodel) locator() []chainhash.Hash {
	var out []chainhash.Hash
	height := int64(m.btip())
	step := int64(1)
	for height >= 0 {
		out = append(out, m.blocks[height].BlockHash())
		if height == 0 {
			break
		}
		if len(out) > 10 {
			step *= 2
		}
		height -= step
		if height < 0 {
			height = 0
		}
	}
	return out
}

type stores struct {
	b headerfs.BlockHeaderStore
	f headerfs.FilterHeaderStore
}

func openStores(env *verifhfs.Env) (*stores, error) { return openStoresAssert(env, nil) }

// openStoresAssert opens both stores, handing the filter store a (correct)
// header state assertion as lnd does on mainnet/testnet.
func openStoresAssert(env *verifhfs.Env, assert *headerfs.FilterHeader) (*stores, error) {
	b, err := headerfs.NewBlockHeaderStore(env.Dir, env.DB, vfxParams)
	if err != nil {
		return nil, fmt.Errorf("NewBlockHeaderStore: %w", err)
	}
	f, err := headerfs.NewFilterHeaderStore(env.Dir, env.DB, headerfs.RegularFilter, vfxParams, assert)
	if err != nil {
		return nil, fmt.Errorf("NewFilterHeaderStore: %w", err)
	}
	return &stores{b, f}, nil
}

// compare reads everything through every read method and compares with m.
// pool holds every header ever handed to the store.
func compare(s *stores, m *lmodel, pool []wire.BlockHeader, env *verifhfs.Env) string {
	tip, h, err := s.b.ChainTip()
	if err != nil {
		return "block ChainTip: " + err.Error()
	}
	if h != m.btip() || *tip != m.blocks[h] {
		return fmt.Sprintf("block ChainTip = height %d %v, list says height %d %v", h, tip.BlockHash(), m.btip(), m.blocks[m.btip()].BlockHash())
	}
	for i := uint32(0); i <= m.btip(); i++ {
		got, err := s.b.FetchHeaderByHeight(i)
		if err != nil {
			return fmt.Sprintf("block FetchHeaderByHeight(%d): %v", i, err)
		}
		if *got != m.blocks[i] {
			return fmt.Sprintf("block FetchHeaderByHeight(%d) returns a different header than the list", i)
		}
	}
	if _, err := s.b.FetchHeaderByHeight(m.btip() + 1); err == nil {
		return fmt.Sprintf("block FetchHeaderByHeight(%d) succeeds above the tip %d", m.btip()+1, m.btip())
	}
	for i := range pool {
		hash := pool[i].BlockHash()
		want, present := m.heightOf(hash)
		got, gh, err := s.b.FetchHeader(&hash)
		hh, err2 := s.b.HeightFromHash(&hash)
		if present {
			if err != nil || err2 != nil {
				return fmt.Sprintf("block at height %d not found by hash: FetchHeader err=%v HeightFromHash err=%v", want, err, err2)
			}
			if gh != want || hh != want || *got != m.blocks[want] {
				return fmt.Sprintf("lookup by hash of block %d: FetchHeader height %d, HeightFromHash %d", want, gh, hh)
			}
		} else if err == nil || err2 == nil {
			return fmt.Sprintf("rolled-back / never stored header %v still found by hash (FetchHeader err=%v, HeightFromHash=%d err=%v)", hash, err, hh, err2)
		}
	}
	for stop := uint32(0); stop <= m.btip(); stop++ {
		sh := m.blocks[stop].BlockHash()
		for n := uint32(0); n <= stop; n++ {
			hs, start, err := s.b.FetchHeaderAncestors(n, &sh)
			if err != nil {
				return fmt.Sprintf("block FetchHeaderAncestors(%d, height %d): %v", n, stop, err)
			}
			if start != stop-n || len(hs) != int(n)+1 {
				return fmt.Sprintf("block FetchHeaderAncestors(%d, height %d): start %d len %d", n, stop, start, len(hs))
			}
			for i := range hs {
				if hs[i] != m.blocks[start+uint32(i)] {
					return fmt.Sprintf("block FetchHeaderAncestors(%d, height %d)[%d] differs from the list", n, stop, i)
				}
			}
		}
	}
	loc, err := s.b.LatestBlockLocator()
	if err != nil {
		return "LatestBlockLocator: " + err.Error()
	}
	want := m.locator()
	if len(loc) != len(want) {
		return fmt.Sprintf("LatestBlockLocator has %d hashes, list-derived locator %d", len(loc), len(want))
	}
	for i := range loc {
		if *loc[i] != want[i] {
			return fmt.Sprintf("LatestBlockLocator[%d] differs from the list-derived locator", i)
		}
	}
	_ = blockchain.BlockLocator(loc)

	// filter store
	ft, fh, err := s.f.ChainTip()
	if err != nil {
		return "filter ChainTip: " + err.Error()
	}
	if fh != m.ftip() || *ft != m.filters[fh] {
		return fmt.Sprintf("filter ChainTip = height %d, list says %d (or value differs)", fh, m.ftip())
	}
	for i := uint32(0); i <= m.ftip(); i++ {
		got, err := s.f.FetchHeaderByHeight(i)
		if err != nil {
			return fmt.Sprintf("filter FetchHeaderByHeight(%d): %v", i, err)
		}
		if *got != m.filters[i] {
			return fmt.Sprintf("filter FetchHeaderByHeight(%d) differs from the list", i)
		}
	}
	if _, err := s.f.FetchHeaderByHeight(m.ftip() + 1); err == nil {
		return fmt.Sprintf("filter FetchHeaderByHeight(%d) succeeds above the filter tip", m.ftip()+1)
	}
	for i := range pool {
		hash := pool[i].BlockHash()
		want, present := m.heightOf(hash)
		got, err := s.f.FetchHeader(&hash)
		if present && want <= m.ftip() {
			if err != nil || *got != m.filters[want] {
				return fmt.Sprintf("filter FetchHeader(block %d): err=%v or wrong value", want, err)
			}
		} else if err == nil {
			return fmt.Sprintf("filter FetchHeader finds an entry for a block that has none (present=%v height=%d ftip=%d)", present, want, m.ftip())
		}
	}
	for stop := uint32(0); stop <= m.ftip(); stop++ {
		sh := m.blocks[stop].BlockHash()
		for n := uint32(0); n <= stop; n++ {
			hs, start, err := s.f.FetchHeaderAncestors(n, &sh)
			if err != nil {
				return fmt.Sprintf("filter FetchHeaderAncestors(%d, height %d): %v", n, stop, err)
			}
			if start != stop-n || len(hs) != int(n)+1 {
				return fmt.Sprintf("filter FetchHeaderAncestors(%d, height %d): start %d len %d", n, stop, start, len(hs))
			}
			for i := range hs {
				if hs[i] != m.filters[start+uint32(i)] {
					return fmt.Sprintf("filter FetchHeaderAncestors(%d, height %d)[%d] differs", n, stop, i)
				}
			}
		}
	}
	// the flat files hold exactly the entries, no torn tail
	if sz := env.FileSize("block_headers.bin"); sz != int64(len(m.blocks))*80 {
		return fmt.Sprintf("block_headers.bin is %d bytes, %d entries need %d", sz, len(m.blocks), len(m.blocks)*80)
	}
	if sz := env.FileSize("reg_filter_headers.bin"); sz != int64(len(m.filters))*32 {
		return fmt.Sprintf("reg_filter_headers.bin is %d bytes, %d entries need %d", sz, len(m.filters), len(m.filters)*32)
	}
	return ""
}

type sop struct {
	kind   string // bw fw brb frb reopen rbboth
	k      int
	branch byte
}

func (o sop) String() string {
	switch o.kind {
	case "bw":
		return fmt.Sprintf("B.Write(%d,branch %c)", o.k, o.branch)
	case "fw":
		return fmt.Sprintf("F.Write(%d)", o.k)
	case "brb":
		return fmt.Sprintf("B.Rollback(%d)", o.k)
	case "frb":
		if o.k < 0 {
			return "F.RollbackLastBlock(at genesis)"
		}
		return "F.RollbackLastBlock"
	case "rbboth":
		return "F.RollbackLastBlock+B.Rollback(1)"
	case "reopen":
		if o.k == 1 {
			return "reopen(with correct filter header assertion)"
		}
	}
	return o.kind
}

// menu lists the operations enabled in model state m.
func menu(m *lmodel, maxLen int, crashMode bool) []sop {
	var ops []sop
	room := maxLen - len(m.blocks)
	for _, br := range []byte{'a', 'b'} {
		for k := 1; k <= 3 && k <= room; k++ {
			ops = append(ops, sop{kind: "bw", k: k, branch: br})
		}
	}
	ops = append(ops, sop{kind: "bw", k: 0, branch: 'a'})
	for k := 1; k <= 2 && m.ftip()+uint32(k) <= m.btip(); k++ {
		ops = append(ops, sop{kind: "fw", k: k})
	}
	ops = append(ops, sop{kind: "fw", k: 0})
	// Rollbacks of the block store never cut below the filter tip (callers
	// always roll the filter store back first).
	seen := map[int]bool{}
	for _, n := range []int{1, 2, int(m.btip())} {
		if n >= 1 && uint32(n) <= m.btip() && m.btip()-uint32(n) >= m.ftip() && !seen[n] {
			seen[n] = true
			ops = append(ops, sop{kind: "brb", k: n})
		}
	}
	ops = append(ops, sop{kind: "brb", k: int(m.btip()) + 1}) // past genesis: must fail
	if m.ftip() == 0 {
		// one rollback more than there were appends: must fail and change nothing
		ops = append(ops, sop{kind: "frb", k: -1})
	}
	if m.ftip() >= 1 {
		ops = append(ops, sop{kind: "frb"})
		if m.ftip() == m.btip() {
			ops = append(ops, sop{kind: "rbboth"})
		}
	}
	ops = append(ops, sop{kind: "reopen"}, sop{kind: "reopen", k: 1})
	return ops
}

// runOp applies o to the real stores; it returns the error of the store call
// and fills next with the model state a success produces.
func runOp(env *verifhfs.Env, s **stores, m *lmodel, o sop, pool *[]wire.BlockHeader) (next *lmodel, err error) {
	next = m.clone()
	switch o.kind {
	case "bw":
		var hs []headerfs.BlockHeader
		for i := 0; i < o.k; i++ {
			prev := next.blocks[len(next.blocks)-1]
			h := mkHeader(&prev, uint32(len(next.blocks)), o.branch)
			next.blocks = append(next.blocks, h)
			next.branch = append(next.branch, o.branch)
			*pool = append(*pool, h)
			hp := h
			hs = append(hs, headerfs.BlockHeader{BlockHeader: &hp, Height: uint32(len(next.blocks) - 1)})
		}
		err = (*s).b.WriteHeaders(hs...)
	case "fw":
		var hs []headerfs.FilterHeader
		for i := 0; i < o.k; i++ {
			ht := uint32(len(next.filters))
			fh := mkFilterHeader(&next.blocks[ht], next.filters[ht-1])
			next.filters = append(next.filters, fh)
			hs = append(hs, headerfs.FilterHeader{HeaderHash: next.blocks[ht].BlockHash(), FilterHash: fh, Height: ht})
		}
		err = (*s).f.WriteHeaders(hs...)
	case "brb":
		if uint32(o.k) <= next.btip() {
			next.blocks = next.blocks[:len(next.blocks)-o.k]
			next.branch = next.branch[:len(next.branch)-o.k]
		}
		var st *headerfs.BlockStamp
		st, err = (*s).b.RollbackBlockHeaders(uint32(o.k))
		if err == nil && uint32(o.k) > m.btip() {
			err = nil
			next = nil // flagged by caller: must have failed
		} else if err == nil {
			tip := next.blocks[next.btip()]
			if st == nil || st.Height != int32(next.btip()) || st.Hash != tip.BlockHash() {
				return next, fmt.Errorf("VFX-STAMP: RollbackBlockHeaders returned stamp %+v, new tip is height %d %v", st, next.btip(), tip.BlockHash())
			}
		}
	case "frb":
		if o.k < 0 {
			newTip := next.blocks[0].BlockHash()
			_, err = (*s).f.RollbackLastBlock(&newTip)
			if err == nil {
				next = nil // flagged by caller: must have failed
			}
			break
		}
		next.filters = next.filters[:len(next.filters)-1]
		newTip := next.blocks[next.ftip()].BlockHash()
		var st *headerfs.BlockStamp
		st, err = (*s).f.RollbackLastBlock(&newTip)
		if err == nil && (st == nil || st.Height != int32(next.ftip()) || st.Hash != next.filters[next.ftip()]) {
			return next, fmt.Errorf("VFX-STAMP: filter RollbackLastBlock returned stamp %+v, new tip is height %d", st, next.ftip())
		}
	case "rbboth":
		next.filters = next.filters[:len(next.filters)-1]
		newTip := next.blocks[next.ftip()].BlockHash()
		_, err = (*s).f.RollbackLastBlock(&newTip)
		if err == nil {
			next.blocks = next.blocks[:len(next.blocks)-1]
			next.branch = next.branch[:len(next.branch)-1]
			_, err = (*s).b.RollbackBlockHeaders(1)
		}
	case "reopen":
		env.CloseFiles()
		var ns *stores
		var as *headerfs.FilterHeader
		if o.k == 1 {
			as = m.assertion()
		}
		ns, err = openStoresAssert(env, as)
		if err == nil {
			*s = ns
		}
	}
	return next, err
}

// storeBody is one execution: a history of operations with deviations chosen
// by the environment at every durable step.
func storeBody(depth, maxLen int, faults, crashes bool) func(c *verifeng.Chooser) {
	return func(c *verifeng.Chooser) {
		env := verifhfs.NewEnv(c)
		defer env.Cleanup()
		env.Faults, env.Crashes = faults, crashes
		m := &lmodel{}
		var pool []wire.BlockHeader
		var s *stores

		// operation 0: first start (creates both stores with genesis).
		var initErr error
		env.BeginOp()
		crashed, where := verifhfs.CatchCrash(func() { s, initErr = openStores(env) })
		c.Step("init")
		gen := vfxParams.GenesisBlock.Header
		pool = append(pool, gen)
		if crashed {
			recoverAndCheck(c, env, nil, nil, &gen, pool, "init", where)
			return
		}
		if initErr != nil {
			if len(env.Deviated) > 0 {
				// a failed first start is allowed to report the fault;
				// the next start must work.
				recoverAndCheck(c, env, nil, nil, &gen, pool, "init", "fault:"+strings.Join(env.Deviated, ","))
				return
			}
			c.Fail("init", "init-fails", "first start fails without any fault: %v", initErr)
			return
		}
		m.blocks = []wire.BlockHeader{gen}
		m.branch = []byte{'g'}
		env.Quiet = true
		gf, _, err := s.f.ChainTip()
		env.Quiet = false
		if err != nil {
			c.Fail("init", "init-filter-tip", "filter ChainTip after first start: %v", err)
			return
		}
		m.filters = []chainhash.Hash{*gf}

		for d := 0; d < depth; d++ {
			if c.Visit(m.String()+"|"+env.Offsets(), depth-d) {
				return
			}
			ops := menu(m, maxLen, crashes)
			o := ops[c.ChooseFree(len(ops), "op")]
			env.BeginOp()
			ndev := len(env.Deviated)
			var next *lmodel
			var err error
			crashed, where := verifhfs.CatchCrash(func() { next, err = runOp(env, &s, m, o, &pool) })
			c.Step("%v -> err=%v", o, err != nil)
			if crashed {
				nx := m.clone()
				env.Quiet = true
				// recompute the intended post-state without touching the stores
				nx = intended(m, o)
				env.Quiet = false
				recoverAndCheck(c, env, m, nx, &gen, pool, o.kind, where)
				return
			}
			faulted := len(env.Deviated) > ndev
			if err != nil && strings.HasPrefix(err.Error(), "VFX-STAMP") {
				c.Fail("stamp", o.kind+":stamp", "%v", err)
				return
			}
			if next == nil {
				c.Fail("result", o.kind+":should-fail", "%v succeeded but must fail (tip %d)", o, m.btip())
				return
			}
			if err != nil && !faulted && !(o.kind == "brb" && uint32(o.k) > m.btip()) && !(o.kind == "frb" && o.k < 0) {
				c.Fail("result", o.kind+":unexpected-error", "%v failed without any injected fault: %v (state %v)", o, err, m)
				return
			}
			if err != nil && o.kind == "reopen" {
				// a fault during reopen: a second reopen must succeed.
				env.Quiet = true
				env.CloseFiles()
				ns, err2 := openStores(env)
				env.Quiet = false
				if err2 != nil {
					c.Fail("reopen", "reopen-after-fault", "stores do not open after a faulted reopen (%v): %v", err, err2)
					return
				}
				s = ns
			}
			exp := m
			if err == nil {
				exp = next
			}
			if err != nil && (o.kind == "brb" || o.kind == "frb" || o.kind == "rbboth") && faulted && !(o.kind == "frb" && o.k < 0) {
				// A rollback that reports an I/O failure may stop half
				// way (the statement only covers failed appends): what
				// must hold is that a restart recovers a before/after
				// state. Checked like a crash.
				recoverAndCheck(c, env, m, intended(m, o), &gen, pool, o.kind, "fault:"+strings.Join(env.Deviated[ndev:], ","))
				return
			}
			env.Quiet = true
			bad := compare(s, exp, pool, env)
			env.Quiet = false
			if bad != "" {
				cl, sig := "state", o.kind+":differs-from-list"
				if err != nil {
					cl, sig = "failed-append-changed-store", o.kind+":failed-op-changed-store"
				}
				c.Fail(cl, sig, "after %v (err=%v, deviations %v): %s; list state expected: %v", o, err, env.Deviated, bad, exp)
				return
			}
			m = exp
		}
		c.Obs(m.String())
	}
}

// intended computes the model state o produces, without touching the stores.
func intended(m *lmodel, o sop) *lmodel {
	next := m.clone()
	switch o.kind {
	case "bw":
		for i := 0; i < o.k; i++ {
			prev := next.blocks[len(next.blocks)-1]
			next.blocks = append(next.blocks, mkHeader(&prev, uint32(len(next.blocks)), o.branch))
			next.branch = append(next.branch, o.branch)
		}
	case "fw":
		for i := 0; i < o.k; i++ {
			ht := uint32(len(next.filters))
			next.filters = append(next.filters, mkFilterHeader(&next.blocks[ht], next.filters[ht-1]))
		}
	case "brb":
		if uint32(o.k) <= next.btip() {
			next.blocks = next.blocks[:len(next.blocks)-o.k]
			next.branch = next.branch[:len(next.branch)-o.k]
		}
	case "frb":
		if o.k >= 0 {
			next.filters = next.filters[:len(next.filters)-1]
		}
	case "rbboth":
		next.filters = next.filters[:len(next.filters)-1]
		next.blocks = next.blocks[:len(next.blocks)-1]
		next.branch = next.branch[:len(next.branch)-1]
	}
	return next
}

// recoverAndCheck restarts on the crashed directory and checks C08's clauses.
// before == nil means the crash hit the very first start.
func recoverAndCheck(c *verifeng.Chooser, env *verifhfs.Env, before, after *lmodel,
	gen *wire.BlockHeader, pool []wire.BlockHeader, opKind, where string) {

	sigBase := opKind + "@" + where
	env.CloseFiles()
	var s *stores
	var err error
	var as *headerfs.FilterHeader
	if before != nil && c.ChooseFree(2, "restart-with-assertion") == 1 {
		// the caller asserts the filter header it knew before the crash
		as = before.assertion()
		sigBase += "+assertion"
	}
	crashed, w2 := verifhfs.CatchCrash(func() { s, err = openStoresAssert(env, as) })
	c.Step("restart after %s (assertion=%v)", where, as != nil)
	if crashed {
		// a second crash during recovery: restart once more, quietly.
		env.Quiet = true
		env.CloseFiles()
		s, err = openStores(env)
		env.Quiet = false
		sigBase += "+" + w2
	}
	if err != nil {
		c.Fail("restart-fails", sigBase+":restart-fails", "after a crash at %s the stores do not open: %v", where, err)
		return
	}
	env.Quiet = true
	defer func() { env.Quiet = false }()
	if before == nil {
		before = &lmodel{blocks: []wire.BlockHeader{*gen}, branch: []byte{'g'}}
		gf, _, err := s.f.ChainTip()
		if err != nil {
			c.Fail("restart-state", sigBase+":filter-tip", "filter ChainTip after restart: %v", err)
			return
		}
		before.filters = []chainhash.Hash{*gf}
		after = before
	}
	// each store is in its before or its after state
	var found *lmodel
	var why []string
	for _, bm := range []*lmodel{before, after} {
		for _, fm := range []*lmodel{before, after} {
			cand := &lmodel{blocks: bm.blocks, branch: bm.branch, filters: fm.filters}
			if cand.ftip() > cand.btip() {
				continue
			}
			bad := compare(s, cand, pool, env)
			if bad == "" {
				found = cand
				break
			}
			why = append(why, fmt.Sprintf("not [%v]: %s", cand, bad))
		}
		if found != nil {
			break
		}
	}
	if found == nil {
		c.Fail("restart-state", sigBase+":neither-before-nor-after",
			"after a crash at %s and a restart the stores hold neither the state before (%v) nor after (%v) the interrupted operation: %s",
			where, before, after, strings.Join(why, " | "))
		return
	}
	// syncing resumes: append one more block header and filter header(s).
	m := found.clone()
	prev := m.blocks[m.btip()]
	nh := mkHeader(&prev, m.btip()+1, 'r')
	pool = append(pool, nh)
	m.blocks = append(m.blocks, nh)
	m.branch = append(m.branch, 'r')
	if err := s.b.WriteHeaders(headerfs.BlockHeader{BlockHeader: &nh, Height: m.btip()}); err != nil {
		c.Fail("resume", sigBase+":append-after-restart-fails", "appending a block header after restart: %v", err)
		return
	}
	ht := m.ftip() + 1
	fh := mkFilterHeader(&m.blocks[ht], m.filters[ht-1])
	m.filters = append(m.filters, fh)
	if err := s.f.WriteHeaders(headerfs.FilterHeader{HeaderHash: m.blocks[ht].BlockHash(), FilterHash: fh, Height: ht}); err != nil {
		c.Fail("resume", sigBase+":filter-append-after-restart-fails", "appending a filter header after restart: %v", err)
		return
	}
	if bad := compare(s, m, pool, env); bad != "" {
		c.Fail("resume", sigBase+":append-after-restart-misplaced",
			"headers appended after the restart do not read back: %s (recovered state %v)", bad, found)
		return
	}
	c.Obs("recovered:" + found.String())
}

func runStore(t *testing.T, harness string, faults, crashes bool) {
	tier := verifeng.Tier()
	type cfg struct{ depth, maxLen, maxDev int }
	var cfgs []cfg
	switch {
	case !faults && !crashes:
		cfgs = []cfg{{5, 6, 0}}
		if tier == "thorough" {
			cfgs = []cfg{{7, 7, 0}}
		}
	case faults:
		cfgs = []cfg{{4, 5, 1}}
		if tier == "thorough" {
			cfgs = []cfg{{5, 6, 1}, {4, 5, 2}}
		}
	default:
		cfgs = []cfg{{4, 5, 1}}
		if tier == "thorough" {
			cfgs = []cfg{{5, 6, 1}, {4, 5, 2}}
		}
	}
	for _, cf := range cfgs {
		e := verifeng.FromEnv(harness, fmt.Sprintf("depth=%d maxlen=%d deviations<=%d faults=%v crashes=%v",
			cf.depth, cf.maxLen, cf.maxDev, faults, crashes))
		e.Dedupe = true
		e.MaxDev = cf.maxDev
		e.Run(storeBody(cf.depth, cf.maxLen, faults, crashes))
		if err := verifeng.AppendResult(&e.Res); err != nil {
			t.Fatal(err)
		}
	}
}

func TestVFXC07(t *testing.T) {
	if rp := os.Getenv("VFX_REPLAY"); rp != "" {
		replayStore(t, rp)
		return
	}
	runStore(t, "C07-histories", false, false)
	runStore(t, "C07-faults", true, false)
}

func TestVFXC08(t *testing.T) {
	if rp := os.Getenv("VFX_REPLAY"); rp != "" {
		replayStore(t, rp)
		return
	}
	runStore(t, "C08-crashes", false, true)
}

func replayStore(t *testing.T, path string) {
	v, err := verifeng.LoadReplay(path)
	if err != nil {
		t.Fatal(err)
	}
	var depth, maxLen, dev int
	var faults, crashes bool
	fmt.Sscanf(v.Config, "depth=%d maxlen=%d deviations<=%d faults=%t crashes=%t", &depth, &maxLen, &dev, &faults, &crashes)
	e := verifeng.FromEnv(v.Harness, v.Config)
	_, x, err := e.ReplayFile(path, storeBody(depth, maxLen, faults, crashes))
	if err != nil {
		t.Fatal(err)
	}
	for _, ev := range x.Events {
		fmt.Println("  ", ev)
	}
	if x.Viol != nil {
		fmt.Printf("REPLAY-VIOLATION clause=%s sig=%s\n%s\n", x.Viol.Clause, x.Viol.Sig, x.Viol.Detail)
	} else {
		fmt.Println("REPLAY-OK no violation")
	}
}

var _ = bytes.Equal

package headerfs_test

// C18 for headerfs: the concurrent-lookup harness of C01 runs under a
// cooperative scheduler, whose hand-offs hide data races. Here the same
// writer programs and lookups run from free-running goroutines on real stores
// (real files, the in-memory walletdb) in a race-detector build; the race detector is the
// only oracle.

import (
	"fmt"
	"sync"
	"testing"

	"github.com/btcsuite/btcd/chainhash/v2"
	"github.com/lightninglabs/neutrino/headerfs"
	"github.com/lightninglabs/neutrino/internal/verifeng"
	"github.com/lightninglabs/neutrino/internal/verifhfs"
)

func TestVFXC18HFS(t *testing.T) {
	f := getC01TFix()
	progs, reads := c01tPrograms(f)
	names := []string{"reorg-depth-1", "reorg-depth-2", "extend", "reorg-stepwise"}
	reps := 40
	if verifeng.Tier() == "thorough" {
		reps = 400
	}
	e := verifeng.FromEnv("C18-headerfs-lookups", fmt.Sprintf("writers=%d lookups=%d reps=%d", len(names), len(reads), reps))
	res := verifeng.Result{Harness: e.Harness, Config: e.Config, Shard: e.Shard, NShards: e.NShards, Exhaustive: true}
	saved := headerfs.VerifWrapFile
	headerfs.VerifWrapFile = nil
	defer func() { headerfs.VerifWrapFile = saved }()
	n := 0
	for _, name := range names {
		for ri := 0; ri < len(reads); ri += 2 {
			n++
			if n%e.NShards != e.Shard {
				continue
			}
			for r := 0; r < reps; r++ {
				// the in-memory walletdb (with the pre-built index buckets)
				// and real files
				env := verifhfs.NewEnv(nil)
				env.Quiet = true
				headerfs.VerifWrapFile = nil
				dir, db := env.Dir, env.DB
				b, err := headerfs.NewBlockHeaderStore(dir, db, vfxParams)
				if err != nil {
					t.Fatal(err)
				}
				fs, err := headerfs.NewFilterHeaderStore(dir, db, headerfs.RegularFilter, vfxParams, nil)
				if err != nil {
					t.Fatal(err)
				}
				var hs []headerfs.BlockHeader
				for i := 1; i < 4; i++ {
					h := f.trunk[i]
					hs = append(hs, headerfs.BlockHeader{BlockHeader: &h, Height: uint32(i)})
				}
				if err := b.WriteHeaders(hs...); err != nil {
					t.Fatal(err)
				}
				var wg sync.WaitGroup
				start := make(chan struct{})
				wg.Add(1)
				go func() {
					defer wg.Done()
					<-start
					for _, stp := range progs[name] {
						if err := stp.run(b); err != nil {
							return
						}
					}
				}()
				for k := 0; k < 2 && ri+k < len(reads); k++ {
					rd := reads[ri+k]
					wg.Add(1)
					go func() {
						defer wg.Done()
						<-start
						rd.run(b)
						rd.run(b)
					}()
				}
				// the filter store's lookups, concurrent with each other
				wg.Add(1)
				go func() {
					defer wg.Done()
					<-start
					fs.ChainTip()
					h := chainhash.Hash(*vfxParams.GenesisHash)
					fs.FetchHeader(&h)
					fs.FetchHeaderAncestors(0, &h)
				}()
				close(start)
				wg.Wait()
				env.Cleanup()
				res.Executions++
				res.Owned++
				res.Transitions += 4
			}
			if len(res.Samples) < 3 {
				res.Samples = append(res.Samples, verifeng.Sample{Index: int64(n),
					Events: []string{"writer " + name + " || " + reads[ri].name + " (twice) || filter store lookups"}})
			}
		}
	}
	res.States = res.Owned
	res.DistinctObs = res.Owned / int64(reps)
	if err := verifeng.AppendResult(&res); err != nil {
		t.Fatal(err)
	}
}

package banman_test

// C13 (store part) — bans are exact and durable, and every textual form of
// one IP address denotes the same record. Every sequence of ban / unban /
// status / advance-the-clock / reopen operations over several spellings,
// masks and durations, on the real banman store (in-memory walletdb; a
// reduced enumeration also on real bbolt), inside a synctest bubble for the
// clock. Reference: a map keyed by an independently normalised network.

import (
	"fmt"
	"net"
	"net/netip"
	"os"
	"path/filepath"
	"sort"
	"strings"
	"testing"
	"time"

	"github.com/btcsuite/btcwallet/walletdb"
	_ "github.com/btcsuite/btcwallet/walletdb/bdb"
	"github.com/lightninglabs/neutrino/banman"
	"github.com/lightninglabs/neutrino/internal/verifbubble"
	"github.com/lightninglabs/neutrino/internal/verifeng"
	"github.com/lightninglabs/neutrino/internal/verifmemdb"
)

type c13form struct {
	text string
	mask net.IPMask
	name string
}

var c13forms = []c13form{
	{"1.2.3.4", nil, "1.2.3.4"},
	{"1.2.3.4:8333", nil, "1.2.3.4:8333"},
	{"::ffff:1.2.3.4", nil, "::ffff:1.2.3.4"},
	{"[::ffff:1.2.3.4]:8333", nil, "[::ffff:1.2.3.4]:8333"},
	{"1.2.3.4", net.CIDRMask(24, 32), "1.2.3.4/24"},
	{"::ffff:1.2.3.77", net.CIDRMask(24, 32), "::ffff:1.2.3.77/24"},
	{"2001:db8::1", nil, "2001:db8::1"},
	{"[2001:db8:0:0::1]:8333", nil, "[2001:db8:0:0::1]:8333"},
	{"2001:db8::2", nil, "2001:db8::2"},
}

// refKey normalises independently of banman: unmap, apply mask, print.
func refKey(f c13form) string {
	host := f.text
	if h, _, err := net.SplitHostPort(f.text); err == nil {
		host = h
	}
	a, err := netip.ParseAddr(host)
	if err != nil {
		panic(err)
	}
	a = a.Unmap()
	bits := a.BitLen()
	if f.mask != nil {
		ones, _ := f.mask.Size()
		bits = ones
	}
	p, err := a.Prefix(bits)
	if err != nil {
		panic(err)
	}
	return p.String()
}

type c13rec struct {
	expiry time.Time // exact (unrounded) lapse instant
	reason banman.Reason
}

type c13op struct {
	kind string // ban unban status advance reopen
	form int
	dur  time.Duration
}

func c13alphabet() []c13op {
	var a []c13op
	for i := range c13forms {
		a = append(a, c13op{kind: "status", form: i})
	}
	for i := range c13forms {
		a = append(a, c13op{kind: "ban", form: i, dur: 10 * time.Second})
		if i == 0 || i == 2 || i == 6 {
			a = append(a, c13op{kind: "ban", form: i, dur: time.Hour})
		}
	}
	for i := range c13forms {
		a = append(a, c13op{kind: "unban", form: i})
	}
	for _, d := range []time.Duration{500 * time.Millisecond, 5 * time.Second, 10 * time.Second, time.Hour} {
		a = append(a, c13op{kind: "advance", dur: d})
	}
	a = append(a, c13op{kind: "reopen"})
	a = append(a, c13op{kind: "status||ban", form: 0, dur: time.Hour})
	a = append(a, c13op{kind: "status||ban", form: 6, dur: time.Hour})
	return a
}

func (o c13op) String() string {
	switch o.kind {
	case "ban":
		return fmt.Sprintf("Ban(%s, %v)", c13forms[o.form].name, o.dur)
	case "unban", "status":
		return fmt.Sprintf("%s(%s)", o.kind, c13forms[o.form].name)
	case "status||ban":
		return fmt.Sprintf("Status(%s) overlapping Ban(%s, %v) by another caller", c13forms[o.form].name, c13forms[o.form].name, o.dur)
	case "advance":
		return fmt.Sprintf("advance(%v)", o.dur)
	}
	return o.kind
}

func reasonFor(d time.Duration) banman.Reason {
	if d == time.Hour {
		return banman.InvalidFilterHeader
	}
	return banman.ExceededBanThreshold
}

type c13db interface {
	open() walletdb.DB
	reopen() walletdb.DB
	close()
}

type memBackend struct{ db *verifmemdb.DB }

func (m *memBackend) open() walletdb.DB   { m.db = verifmemdb.New(); return m.db }
func (m *memBackend) reopen() walletdb.DB { return verifmemdb.FromSnapshot(m.db.Snapshot()) }
func (m *memBackend) close()              {}

type boltBackend struct {
	path string
	db   walletdb.DB
}

func (b *boltBackend) open() walletdb.DB {
	os.Remove(b.path)
	db, err := walletdb.Create("bdb", b.path, true, time.Second, false)
	if err != nil {
		panic(verifeng.InfraError{Msg: "bbolt create: " + err.Error()})
	}
	b.db = db
	return db
}
func (b *boltBackend) reopen() walletdb.DB {
	b.db.Close()
	db, err := walletdb.Open("bdb", b.path, true, time.Second, false)
	if err != nil {
		panic(verifeng.InfraError{Msg: "bbolt open: " + err.Error()})
	}
	b.db = db
	return db
}
func (b *boltBackend) close() { b.db.Close(); os.Remove(b.path) }

// hookDB makes the boundaries between database transactions visible: the hook
// runs before every View/Update the store starts. Transactions are atomic and
// serialised by the database, so another caller's operation between two
// transactions of one store call is exactly what a concurrent caller can do.
type hookDB struct {
	walletdb.DB
	before *func()
}

func (h hookDB) View(f func(tx walletdb.ReadTx) error, reset func()) error {
	if *h.before != nil {
		(*h.before)()
	}
	return h.DB.View(f, reset)
}

func (h hookDB) Update(f func(tx walletdb.ReadWriteTx) error, reset func()) error {
	if *h.before != nil {
		(*h.before)()
	}
	return h.DB.Update(f, reset)
}

func c13Body(t *testing.T, depth int, bolt bool) func(c *verifeng.Chooser) {
	alpha := c13alphabet()
	return func(c *verifeng.Chooser) {
		out := verifbubble.Run(t, func() { c13Run(c, depth, alpha, bolt) })
		if out.Panic != nil {
			if ie, ok := out.Panic.(verifeng.InfraError); ok {
				panic(ie)
			}
			c.Fail("panic", "panic", "%v", out.Panic)
		}
	}
}

func c13Run(c *verifeng.Chooser, depth int, alpha []c13op, bolt bool) {
	var be c13db = &memBackend{}
	if bolt {
		dir := os.Getenv("VFX_SCRATCH")
		if dir == "" {
			dir = os.TempDir()
		}
		be = &boltBackend{path: filepath.Join(dir, "c13.db")}
	}
	var hook func()
	wrap := func(d walletdb.DB) walletdb.DB { return hookDB{DB: d, before: &hook} }
	db := wrap(be.open())
	defer be.close()
	store, err := banman.NewStore(db)
	if err != nil {
		c.Fail("open", "newstore-fails", "NewStore: %v", err)
		return
	}
	model := map[string]c13rec{}
	start := time.Now()

	parse := func(f c13form) *net.IPNet {
		n, err := banman.ParseIPNet(f.text, f.mask)
		if err != nil {
			c.Fail("parse", "parse-fails:"+f.name, "ParseIPNet(%q): %v", f.text, err)
			return nil
		}
		return n
	}
	// checkStatus compares Status(form) with the reference.
	checkStatus := func(i int, when string) bool {
		f := c13forms[i]
		n := parse(f)
		if n == nil {
			return true
		}
		st, err := store.Status(n)
		if err != nil {
			return c.Fail("status", "status-error", "Status(%s): %v", f.name, err)
		}
		now := time.Now()
		rec, ok := model[refKey(f)]
		// Expiries are stored in whole seconds: a ban must be reported
		// strictly before floor(lapse instant) and must not be reported
		// from ceil(lapse instant) on; in between either answer is
		// accepted (documented narrowing).
		lo := rec.expiry.Truncate(time.Second)
		hi := lo
		if !rec.expiry.Equal(lo) {
			hi = lo.Add(time.Second)
		}
		mustBan := ok && now.Before(lo)
		mustNot := !ok || !now.Before(hi)
		switch {
		case mustBan && !st.Banned:
			return c.Fail("not-banned", "banned-address-reported-free:"+formClass(i),
				"%s: Status(%s) says not banned at +%v, but %s was banned until +%v (%s)", when, f.name,
				now.Sub(start), refKey(f), rec.expiry.Sub(start), rec.reason)
		case mustNot && st.Banned:
			return c.Fail("still-banned", "free-address-reported-banned:"+formClass(i),
				"%s: Status(%s) says banned (reason %v, until +%v) at +%v, but the reference has %v", when, f.name,
				st.Reason, st.Expiration.Sub(start), now.Sub(start), describe(model, refKey(f), start))
		case st.Banned && ok && st.Reason != rec.reason:
			return c.Fail("reason", "wrong-reason", "%s: Status(%s) reports reason %v, recorded reason is %v", when, f.name, st.Reason, rec.reason)
		}
		if ok && !now.Before(hi) {
			delete(model, refKey(f))
		}
		return false
	}

	for d := 0; d < depth; d++ {
		if c.Visit(c13key(model, start), depth-d) {
			return
		}
		o := alpha[c.ChooseFree(len(alpha), "op")]
		c.Step("%v", o)
		switch o.kind {
		case "ban":
			n := parse(c13forms[o.form])
			if n == nil {
				return
			}
			if err := store.BanIPNet(n, reasonFor(o.dur), o.dur); err != nil {
				c.Fail("ban", "ban-error", "BanIPNet(%s): %v", c13forms[o.form].name, err)
				return
			}
			model[refKey(c13forms[o.form])] = c13rec{time.Now().Add(o.dur), reasonFor(o.dur)}
		case "unban":
			n := parse(c13forms[o.form])
			if n == nil {
				return
			}
			if err := store.UnbanIPNet(n); err != nil {
				c.Fail("unban", "unban-error", "UnbanIPNet(%s): %v", c13forms[o.form].name, err)
				return
			}
			delete(model, refKey(c13forms[o.form]))
		case "status":
			if checkStatus(o.form, "op") {
				return
			}
		case "advance":
			time.Sleep(o.dur)
		case "reopen":
			db = wrap(be.reopen())
			store, err = banman.NewStore(db)
			if err != nil {
				c.Fail("open", "reopen-fails", "NewStore after reopen: %v", err)
				return
			}
		case "status||ban":
			// another caller bans the address between two database
			// transactions of this Status call (if it has more than one)
			n := parse(c13forms[o.form])
			if n == nil {
				return
			}
			ntx := 0
			hook = func() {
				ntx++
				if ntx != 2 {
					return
				}
				hook = nil
				c.Note("between two transactions of Status: Ban(%s, %v) by another caller", c13forms[o.form].name, o.dur)
				if err := store.BanIPNet(n, reasonFor(o.dur), o.dur); err != nil {
					c.Fail("ban", "ban-error", "BanIPNet(%s): %v", c13forms[o.form].name, err)
					return
				}
				model[refKey(c13forms[o.form])] = c13rec{time.Now().Add(o.dur), reasonFor(o.dur)}
			}
			_, err := store.Status(n)
			hook = nil
			if c.Failed() {
				return
			}
			if err != nil {
				c.Fail("status", "status-error", "Status(%s): %v", c13forms[o.form].name, err)
				return
			}
			// whichever answer Status gave (it overlapped the ban), the
			// ban itself must stand: asked again, now sequentially
			if ntx >= 2 && checkStatus(o.form, "after a Status call that overlapped a Ban") {
				return
			}
		}
	}
	// final sweep over every spelling, then once more after a reopen
	for round := 0; round < 2; round++ {
		for i := range c13forms {
			if checkStatus(i, []string{"final sweep", "final sweep after reopen"}[round]) {
				return
			}
		}
		db = wrap(be.reopen())
		store, err = banman.NewStore(db)
		if err != nil {
			c.Fail("open", "reopen-fails", "NewStore after reopen: %v", err)
			return
		}
	}
	c.Obs(c13key(model, start))
}

func formClass(i int) string {
	f := c13forms[i]
	switch {
	case strings.Contains(f.text, "ffff"):
		return "mapped-v4"
	case strings.Contains(f.text, ":") && strings.Count(f.text, ":") > 1:
		return "v6"
	}
	return "v4"
}

func describe(m map[string]c13rec, k string, start time.Time) string {
	r, ok := m[k]
	if !ok {
		return "no ban for " + k
	}
	return fmt.Sprintf("%s banned until +%v", k, r.expiry.Sub(start))
}

// c13key: records with their remaining lifetime, plus the clock's sub-second
// phase (expiries are stored in whole seconds).
func c13key(m map[string]c13rec, start time.Time) string {
	now := time.Now()
	var l []string
	for k, r := range m {
		l = append(l, fmt.Sprintf("%s:%v:%d", k, r.expiry.Sub(now), r.reason))
	}
	sort.Strings(l)
	return strings.Join(l, ",") + fmt.Sprintf("|phase=%d", now.Sub(start)%time.Second)
}

func TestVFXC13(t *testing.T) {
	tier := verifeng.Tier()
	depth, boltDepth := 4, 2
	if tier == "thorough" {
		depth, boltDepth = 6, 3
	}
	if rp := os.Getenv("VFX_REPLAY"); rp != "" {
		v, err := verifeng.LoadReplay(rp)
		if err != nil {
			t.Fatal(err)
		}
		var bolt bool
		fmt.Sscanf(v.Config, "depth=%d bbolt=%t", &depth, &bolt)
		e := verifeng.FromEnv(v.Harness, v.Config)
		_, x, err := e.ReplayFile(rp, c13Body(t, depth, bolt))
		if err != nil {
			t.Fatal(err)
		}
		for _, ev := range x.Events {
			fmt.Println("  ", ev)
		}
		if x.Viol != nil {
			fmt.Printf("REPLAY-VIOLATION clause=%s sig=%s\n%s\n", x.Viol.Clause, x.Viol.Sig, x.Viol.Detail)
		} else {
			fmt.Println("REPLAY-OK no violation")
		}
		return
	}
	e := verifeng.FromEnv("C13a-banstore", fmt.Sprintf("depth=%d bbolt=false ops=%d", depth, len(c13alphabet())))
	e.Dedupe = true
	e.Run(c13Body(t, depth, false))
	if err := verifeng.AppendResult(&e.Res); err != nil {
		t.Fatal(err)
	}
	e = verifeng.FromEnv("C13a-banstore-bbolt", fmt.Sprintf("depth=%d bbolt=true ops=%d", boltDepth, len(c13alphabet())))
	e.Run(c13Body(t, boltDepth, true))
	if err := verifeng.AppendResult(&e.Res); err != nil {
		t.Fatal(err)
	}
}

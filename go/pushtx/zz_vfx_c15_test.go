package pushtx_test

// C15 — accepted transactions are rebroadcast in dependency order until
// confirmed. Real Broadcaster in a synctest bubble. Config.Broadcast is a
// yield point: every invocation parks until the explorer lets it return with
// an answer of its choice. Stimuli (one per quiescent point): a caller starts
// Broadcast(tx), a block event, the interval tick, MarkAsConfirmed(tx), let a
// parked callback return, Stop.

import (
	"errors"
	"fmt"
	"os"
	"sort"
	"strings"
	"testing"
	"time"

	"github.com/btcsuite/btcd/chainhash/v2"
	"github.com/btcsuite/btcd/wire/v2"
	"github.com/lightninglabs/neutrino/blockntfns"
	"github.com/lightninglabs/neutrino/internal/verifbubble"
	"github.com/lightninglabs/neutrino/internal/verifdetrt"
	"github.com/lightninglabs/neutrino/internal/verifeng"
	"github.com/lightninglabs/neutrino/pushtx"
)

// transactions: 0 parent, 1 child of 0, 2 grandchild (child of 1), 3 unrelated.
func c15Txs() []*wire.MsgTx {
	mk := func(prev *wire.MsgTx, salt byte) *wire.MsgTx {
		tx := wire.NewMsgTx(2)
		op := wire.OutPoint{Index: uint32(salt)}
		op.Hash[0] = salt
		if prev != nil {
			op = wire.OutPoint{Hash: prev.TxHash(), Index: 0}
		}
		tx.AddTxIn(wire.NewTxIn(&op, nil, nil))
		tx.AddTxOut(wire.NewTxOut(1000+int64(salt), []byte{0x51, salt}))
		return tx
	}
	p := mk(nil, 1)
	c := mk(p, 2)
	g := mk(c, 3)
	u := mk(nil, 4)
	return []*wire.MsgTx{p, c, g, u}
}

var c15Names = []string{"P", "C", "G", "U"}

type parked struct {
	tx      int
	initial bool
	release chan error
}

type c15h struct {
	c        *verifeng.Chooser
	txs      []*wire.MsgTx
	byHash   map[chainhash.Hash]int
	parkedCB []*parked // in arrival order
}

func (h *c15h) callback(tx *wire.MsgTx) error {
	idx, ok := h.byHash[tx.TxHash()]
	if !ok {
		panic("callback with unknown tx")
	}
	p := &parked{tx: idx, initial: tx == h.txs[idx], release: make(chan error)}
	h.parkedCB = append(h.parkedCB, p)
	return <-p.release
}

var c15Answers = []struct {
	name string
	err  error
}{
	{"accepted", nil},
	{"already-in-mempool", &pushtx.BroadcastError{Code: pushtx.Mempool, Reason: "mempool"}},
	{"already-confirmed", &pushtx.BroadcastError{Code: pushtx.Confirmed, Reason: "confirmed"}},
	{"invalid", &pushtx.BroadcastError{Code: pushtx.Invalid, Reason: "invalid"}},
	{"other-error", errors.New("no peers")},
	// an error of another backend, which Config.MapCustomBroadcastError
	// translates into "already in the mempool"
	{"backend-specific-already-in-mempool", c15BackendMempool},
}

type c15BackendErr struct{ msg string }

func (e *c15BackendErr) Error() string { return e.msg }

var (
	c15BackendMempool       = &c15BackendErr{"backend: txn-already-in-mempool"}
	c15BackendMempoolMapped = &pushtx.BroadcastError{Code: pushtx.Mempool, Reason: "mapped from the backend's error"}
)

// c15Map is the harness's MapCustomBroadcastError.
func c15Map(err error) error {
	if err == error(c15BackendMempool) {
		return c15BackendMempoolMapped
	}
	return err
}

// isAncestor: a is the direct parent of b in P<-C<-G (the statement orders
// parents before their children; a grandparent whose child is not part of the
// round is unrelated to the grandchild as far as the round is concerned).
func isAncestor(a, b int) bool {
	return b == a+1 && b <= 2
}

func c15Body(t *testing.T, depth, ntx int, bursts int) func(c *verifeng.Chooser) {
	return func(c *verifeng.Chooser) {
		out := verifbubble.Run(t, func() { c15Run(c, depth, ntx, bursts) })
		switch {
		case out.Panic != nil:
			if ie, ok := out.Panic.(verifeng.InfraError); ok {
				panic(ie)
			}
			c.Fail("panic", "panic", "%v", out.Panic)
		case out.Deadlock != "":
			c.Fail("stuck", "controller-deadlock", "a call into the broadcaster blocked with every goroutine idle (%s)", out.Deadlock)
		case out.Hang:
			c.Fail("hang", "hang", "the bubble never became quiescent")
		case out.Leak != "" && !c.Failed():
			c.Fail("leak", "goroutines-blocked-at-end", "after Stop and a 10 minute (virtual) horizon: %s", out.Leak)
		}
	}
}

// bursts: 0 none; 1 one scheduler/select deviation per execution; 2 one
// preemption at a synchronisation point per execution, API calls paired with Stop
func c15Run(c *verifeng.Chooser, depth, ntx int, bursts int) {
	h := &c15h{c: c, txs: c15Txs()[:ntx], byHash: map[chainhash.Hash]int{}}
	for i, tx := range h.txs {
		h.byHash[tx.TxHash()] = i
	}
	blocks := make(chan blockntfns.BlockNtfn, 4)
	cancelled := false
	b := pushtx.NewBroadcaster(&pushtx.Config{
		Broadcast: h.callback,
		SubscribeBlocks: func() (*blockntfns.Subscription, error) {
			return &blockntfns.Subscription{Notifications: blocks,
				Cancel: func() { cancelled = true }}, nil
		},
		RebroadcastInterval:     time.Minute,
		MapCustomBroadcastError: c15Map,
	})
	if err := b.Start(); err != nil {
		panic(verifeng.InfraError{Msg: err.Error()})
	}

	// ---- model
	pending := map[int]bool{} // accepted, not confirmed
	asked := map[int]int{}    // Broadcast calls started per tx
	var handlerBusy *parked   // the handler's own (initial) callback
	var handlerTask *verifbubble.Task
	var queued string // one stimulus waiting for the busy handler
	var queuedTx int
	var queuedTask *verifbubble.Task
	// a second stimulus may wait behind the first if the two are a
	// confirmation report and a block event: which of them the handler takes
	// first once it is free is the select's choice
	var queued2 string
	var queued2Tx int
	var queued2Task *verifbubble.Task
	roundActive := false
	var remaining []int // txs the running round still has to send
	var optional []int  // txs the running round may or may not send
	var burst *verifbubble.Burst
	if bursts > 0 {
		burst = verifbubble.NewBurst(c)
	}
	if bursts == 2 && burst != nil {
		burst.NoSched, burst.NoSelect = true, true
		burst.Sync = verifdetrt.SyncMutex | verifdetrt.SyncSpawn | verifdetrt.SyncChan
	}
	var roundCB *parked
	stopped := false
	expectRet := map[*verifbubble.Task]error{}
	afterStop := 0
	var stopTask *verifbubble.Task
	var tasks []*verifbubble.Task
	rounds := 0

	startRound := func() {
		if roundActive {
			return
		}
		var snap []int
		for tx := range pending {
			snap = append(snap, tx)
		}
		sort.Ints(snap)
		if len(snap) == 0 {
			return
		}
		roundActive, remaining = true, snap
		rounds++
		c.Note("rebroadcast round %d must send %v", rounds, names(snap))
	}
	// apply a stimulus the handler has received.
	var handle func(kind string, tx int)
	handle = func(kind string, tx int) {
		switch kind {
		case "block", "tick":
			startRound()
		case "conf":
			delete(pending, tx)
		}
	}
	// syncParked reconciles newly parked callbacks with the model.
	syncParked := func() bool {
		for _, p := range h.parkedCB {
			if p == handlerBusy || p == roundCB {
				continue
			}
			if p.initial {
				if handlerBusy != nil {
					return c.Fail("model", "two-initial-callbacks", "two initial broadcasts in flight at once")
				}
				handlerBusy = p
				continue
			}
			// a rebroadcast invocation
			if !roundActive {
				return c.Fail("rebroadcast", "unexpected-rebroadcast:"+c15Names[p.tx],
					"Broadcast callback invoked for a rebroadcast of %s although no block event or tick started a round (pending set %v)", c15Names[p.tx], names(keys(pending)))
			}
			pos := -1
			for i, r := range remaining {
				if r == p.tx {
					pos = i
				}
			}
			if pos < 0 {
				opt := -1
				for i, r := range optional {
					if r == p.tx {
						opt = i
					}
				}
				if opt >= 0 {
					optional = append(optional[:opt:opt], optional[opt+1:]...)
					roundCB = p
					continue
				}
				return c.Fail("rebroadcast", "rebroadcast-of-wrong-tx:"+c15Names[p.tx],
					"round %d rebroadcasts %s, which was not accepted-and-unconfirmed when the round started (or was already sent in this round); still due: %v", rounds, c15Names[p.tx], names(remaining))
			}
			for _, r := range remaining {
				if isAncestor(r, p.tx) {
					return c.Fail("order", "child-before-parent",
						"round %d rebroadcasts %s before its ancestor %s", rounds, c15Names[p.tx], c15Names[r])
				}
			}
			remaining = append(remaining[:pos:pos], remaining[pos+1:]...)
			// an optional parent that has not come by now must not come later
			var keepOpt []int
			for _, r := range optional {
				if !isAncestor(r, p.tx) {
					keepOpt = append(keepOpt, r)
				}
			}
			optional = keepOpt
			roundCB = p
		}
		return false
	}
	quiesce := func() bool {
		verifbubble.Wait()
		burst.End()
		if syncParked() {
			return true
		}
		// a round with txs still due and nothing in flight has skipped them
		if roundActive && roundCB == nil && !stopped {
			if len(remaining) > 0 {
				return c.Fail("rebroadcast", "tx-missing-from-round",
					"round %d ended (or stalled) without rebroadcasting %v", rounds, names(remaining))
			}
			roundActive = false
			optional = nil
		}
		return false
	}
	handlerIdle := func() bool { return handlerBusy == nil && queued == "" }

	if quiesce() {
		return
	}
	for d := 0; d < depth && !c.Failed(); d++ {
		type ev struct {
			name string
			run  func()
		}
		var menu []ev
		// stimuli for the handler: allowed when it is idle, or as the single
		// queued stimulus while it sits in its own callback.
		canSend := !stopped && queued == ""
		if !stopped && handlerBusy != nil && queued2 == "" {
			switch queued {
			case "conf":
				menu = append(menu, ev{"block-event (behind the confirmation report)", func() {
					blocks <- blockntfns.NewBlockConnected(wire.BlockHeader{}, 1)
					queued2, queued2Task = "block", nil
				}})
			case "block":
				for i := range h.txs {
					i := i
					if pending[i] {
						menu = append(menu, ev{"MarkAsConfirmed(" + c15Names[i] + ") (behind the block event)", func() {
							tk := verifbubble.Go("MarkAsConfirmed("+c15Names[i]+")", func() (any, error) {
								b.MarkAsConfirmed(h.txs[i].TxHash())
								return nil, nil
							})
							tasks = append(tasks, tk)
							queued2, queued2Tx, queued2Task = "conf", i, tk
						}})
					}
				}
			}
		}
		if canSend {
			for i := range h.txs {
				i := i
				if asked[i] < 1 || (i == 0 && asked[i] < 2) {
					menu = append(menu, ev{"Broadcast(" + c15Names[i] + ")", func() {
						asked[i]++
						tk := verifbubble.Go("Broadcast("+c15Names[i]+")", func() (any, error) {
							return nil, b.Broadcast(h.txs[i])
						})
						tasks = append(tasks, tk)
						if handlerBusy != nil {
							queued, queuedTx, queuedTask = "bcast", i, tk
						} else {
							handlerTask = tk
						}
					}})
				}
			}
			menu = append(menu, ev{"block-event", func() {
				blocks <- blockntfns.NewBlockConnected(wire.BlockHeader{}, 1)
				if handlerBusy != nil {
					queued, queuedTask = "block", nil
				} else {
					handle("block", 0)
				}
			}})
			if handlerBusy == nil {
				menu = append(menu, ev{"tick(+1min)", func() {
					time.Sleep(time.Minute)
					handle("tick", 0)
				}})
			}
			for i := range h.txs {
				i := i
				if pending[i] {
					menu = append(menu, ev{"MarkAsConfirmed(" + c15Names[i] + ")", func() {
						tk := verifbubble.Go("MarkAsConfirmed("+c15Names[i]+")", func() (any, error) {
							b.MarkAsConfirmed(h.txs[i].TxHash())
							return nil, nil
						})
						tasks = append(tasks, tk)
						if handlerBusy != nil {
							queued, queuedTx, queuedTask = "conf", i, tk
						} else {
							handle("conf", i)
						}
					}})
				}
			}
		}
		// answers
		if handlerBusy != nil {
			for _, a := range c15Answers {
				a := a
				p := handlerBusy
				menu = append(menu, ev{fmt.Sprintf("initial broadcast of %s returns %s", c15Names[p.tx], a.name), func() {
					h.remove(p)
					handlerBusy = nil
					accepted := a.err == nil || pushtx.IsBroadcastError(c15Map(a.err), pushtx.Mempool)
					if accepted {
						pending[p.tx] = true
					}
					if !stopped && handlerTask != nil {
						if accepted {
							expectRet[handlerTask] = nil
						} else {
							expectRet[handlerTask] = c15Map(a.err)
						}
					}
					handlerTask = nil
					p.release <- a.err
					// a confirmation report and a block event are both
					// waiting: the report counts from the moment the call
					// returned. If it has not (the handler has to take it
					// first), either order is the handler's right and the
					// transaction may or may not be part of the round.
					if queued != "" && queued2 != "" && !stopped {
						ctx, ctk := queuedTx, queuedTask
						if queued2 == "conf" {
							ctx, ctk = queued2Tx, queued2Task
						}
						reported := ctk.Done()
						was := pending[ctx]
						queued, queuedTask, queued2, queued2Task = "", nil, "", nil
						handle("conf", ctx)
						handle("block", 0)
						if !reported && was && roundActive {
							optional = append(optional, ctx)
						}
						if !roundActive && !reported && was {
							// nothing else is pending: a round with just
							// this transaction may run
							roundActive, remaining, optional = true, nil, []int{ctx}
							rounds++
						}
						return
					}
					// the queued stimulus is handled next
					if queued != "" && !stopped {
						k, tx, tk := queued, queuedTx, queuedTask
						queued, queuedTask = "", nil
						if k == "bcast" {
							handlerTask = tk
						} else {
							handle(k, tx)
						}
					}
				}})
			}
		}
		if roundCB != nil {
			for _, a := range c15Answers {
				a := a
				p := roundCB
				if pushtx.IsBroadcastError(c15Map(a.err), pushtx.Confirmed) && !handlerIdle() {
					// the confirmation would queue behind another stimulus;
					// keep one stimulus at a time.
					continue
				}
				menu = append(menu, ev{fmt.Sprintf("rebroadcast of %s returns %s", c15Names[p.tx], a.name), func() {
					h.remove(p)
					roundCB = nil
					if pushtx.IsBroadcastError(c15Map(a.err), pushtx.Confirmed) && !stopped {
						handle("conf", p.tx)
					}
					p.release <- a.err
				}})
			}
		}
		if stopped && afterStop < 2 {
			menu = append(menu, ev{"MarkAsConfirmed(P) after Stop", func() {
				afterStop++
				tasks = append(tasks, verifbubble.Go("MarkAsConfirmed(P)", func() (any, error) {
					b.MarkAsConfirmed(h.txs[0].TxHash())
					return nil, nil
				}))
			}})
			menu = append(menu, ev{"Broadcast(U) after Stop", func() {
				afterStop++
				tk := verifbubble.Go("Broadcast(after Stop)", func() (any, error) {
					return nil, b.Broadcast(h.txs[len(h.txs)-1])
				})
				tasks = append(tasks, tk)
			}})
		}
		if bursts == 2 && !stopped && handlerBusy == nil && queued == "" {
			// an API call and Stop by two callers in one step, in both
			// launch orders (the goroutine launched last runs first);
			// whatever the call returns, nobody may stay blocked
			stopNow := func() {
				stopped = true
				stopTask = verifbubble.Go("Stop", func() (any, error) { b.Stop(); return nil, nil })
				tasks = append(tasks, stopTask)
			}
			for _, stopFirst := range []bool{true, false} {
				stopFirst := stopFirst
				order := "Stop running first"
				if !stopFirst {
					order = "the call running first"
				}
				i := len(h.txs) - 1
				if asked[i] < 1 {
					menu = append(menu, ev{"Broadcast(" + c15Names[i] + ") and Stop at once, " + order, func() {
						asked[i]++
						call := func() {
							tasks = append(tasks, verifbubble.Go("Broadcast("+c15Names[i]+")", func() (any, error) {
								return nil, b.Broadcast(h.txs[i])
							}))
						}
						if stopFirst {
							call()
							stopNow()
						} else {
							stopNow()
							call()
						}
					}})
				}
				for j := range h.txs {
					j := j
					if !pending[j] {
						continue
					}
					menu = append(menu, ev{"MarkAsConfirmed(" + c15Names[j] + ") and Stop at once, " + order, func() {
						call := func() {
							tasks = append(tasks, verifbubble.Go("MarkAsConfirmed("+c15Names[j]+")", func() (any, error) {
								b.MarkAsConfirmed(h.txs[j].TxHash())
								return nil, nil
							}))
						}
						if stopFirst {
							call()
							stopNow()
						} else {
							stopNow()
							call()
						}
					}})
					break
				}
			}
		}
		if !stopped {
			menu = append(menu, ev{"Stop", func() {
				stopped = true
				stopTask = verifbubble.Go("Stop", func() (any, error) { b.Stop(); return nil, nil })
				tasks = append(tasks, stopTask)
			}})
		}
		if len(menu) == 0 {
			break
		}
		e := menu[c.ChooseFree(len(menu), "event")]
		c.Step("%s%s", e.name, burst.Begin())
		e.run()
		if quiesce() {
			return
		}
		// Return values of finished Broadcast calls.
		for tk, want := range expectRet {
			if stopped {
				break // after Stop either the verdict or ErrBroadcasterStopped
			}
			if !tk.Done() {
				c.Fail("broadcast-result", "broadcast-does-not-return", "%s has not returned although its callback returned", tk.Name)
				return
			}
			if tk.Err != want {
				c.Fail("broadcast-result", "broadcast-wrong-verdict", "%s returned %v, the broadcast callback answered %v", tk.Name, tk.Err, want)
				return
			}
			delete(expectRet, tk)
		}
	}
	if c.Failed() {
		return
	}
	burst.Off()
	// ---- wind down: Stop, let every parked callback return, 10 minutes.
	if !stopped {
		stopped = true
		stopTask = verifbubble.Go("Stop", func() (any, error) { b.Stop(); return nil, nil })
		tasks = append(tasks, stopTask)
	}
	for i := 0; i < 20; i++ {
		verifbubble.Wait()
		if len(h.parkedCB) == 0 {
			break
		}
		p := h.parkedCB[0]
		h.parkedCB = h.parkedCB[1:]
		p.release <- errors.New("shutting down")
	}
	time.Sleep(10 * time.Minute)
	verifbubble.Wait()
	var stuck []string
	for _, tk := range tasks {
		if !tk.Done() {
			stuck = append(stuck, tk.Name)
		}
	}
	if len(stuck) > 0 {
		sort.Strings(stuck)
		kinds := map[string]bool{}
		for _, s := range stuck {
			kinds[strings.SplitN(s, "(", 2)[0]] = true
		}
		var ks []string
		for k := range kinds {
			ks = append(ks, k)
		}
		sort.Strings(ks)
		c.Fail("blocked-forever", "caller-blocked:"+strings.Join(ks, "+"),
			"10 (virtual) minutes after Stop, with every Broadcast callback returned, these calls are still blocked: %v", stuck)
		return
	}
	if !cancelled {
		c.Fail("subscription", "block-subscription-not-cancelled", "Stop returned without cancelling the block subscription")
		return
	}
	c.Obs(fmt.Sprintf("rounds=%d pending=%v", rounds, names(keys(pending))))
}

func (h *c15h) remove(p *parked) {
	for i, q := range h.parkedCB {
		if q == p {
			h.parkedCB = append(h.parkedCB[:i:i], h.parkedCB[i+1:]...)
			return
		}
	}
}

func keys(m map[int]bool) []int {
	var k []int
	for x := range m {
		k = append(k, x)
	}
	sort.Ints(k)
	return k
}

func names(l []int) []string {
	var out []string
	for _, x := range l {
		out = append(out, c15Names[x])
	}
	return out
}

func TestVFXC15(t *testing.T) {
	tier := verifeng.Tier()
	depth, ntx := 7, 3
	if tier == "thorough" {
		depth, ntx = 9, 4
	}
	if rp := os.Getenv("VFX_REPLAY"); rp != "" {
		v, err := verifeng.LoadReplay(rp)
		if err != nil {
			t.Fatal(err)
		}
		fmt.Sscanf(v.Config, "depth=%d txs=%d", &depth, &ntx)
		e := verifeng.FromEnv(v.Harness, v.Config)
		_, x, err := e.ReplayFile(rp, c15Body(t, depth, ntx, map[bool]int{true: 1}[strings.Contains(v.Config, "in-burst")]+map[bool]int{true: 2}[strings.Contains(v.Config, "preemption")]))
		if err != nil {
			t.Fatal(err)
		}
		for _, ev := range x.Events {
			fmt.Println("  ", ev)
		}
		if x.Viol != nil {
			fmt.Printf("REPLAY-VIOLATION clause=%s sig=%s\n%s\n", x.Viol.Clause, x.Viol.Sig, x.Viol.Detail)
		} else {
			fmt.Println("REPLAY-OK no violation")
		}
		return
	}
	e := verifeng.FromEnv("C15-broadcaster", fmt.Sprintf("depth=%d txs=%d", depth, ntx))
	e.Run(c15Body(t, depth, ntx, 0))
	if err := verifeng.AppendResult(&e.Res); err != nil {
		t.Fatal(err)
	}
	// the same with the order inside a burst as a further dimension: every
	// history up to a smaller depth, and in each at most one scheduler or
	// select deviation (delay-bounded scheduling, DESIGN 3.7)
	bd := depth - 2
	e = verifeng.FromEnv("C15-broadcaster", fmt.Sprintf("depth=%d txs=%d in-burst deviations<=1", bd, 2))
	e.MaxDev = 1
	e.Run(c15Body(t, bd, 2, 1))
	if err := verifeng.AppendResult(&e.Res); err != nil {
		t.Fatal(err)
	}
	// API calls paired with Stop, one preemption at a synchronisation point
	// (DESIGN 3.9)
	e = verifeng.FromEnv("C15-broadcaster", fmt.Sprintf("depth=%d txs=%d preemption at a synchronisation point<=1", bd, 2))
	e.MaxDev = 1
	e.Run(c15Body(t, bd, 2, 2))
	if err := verifeng.AppendResult(&e.Res); err != nil {
		t.Fatal(err)
	}
}
